//! no_std configuration of triomphe (default-features = false): C16's overflow guard must still end
//! the process. In this configuration `abort()` is the crate-private double-panic function
//! `triomphe::abort`; it is stubbed by a function that records the call and ends the path.
//!
//! BOUNDS: (no_std build, features: none) symbolic 64-bit starting count through Arc / ThinArc /
//!   OffsetArc / ArcUnion clone.
//! ASSUME: triomphe::abort (crate-private, no_std variant) replaced by a recording stub; that the
//!   real double panic terminates the process is run-time behaviour outside the model.
#![allow(unused)]
#[cfg(kani)]
mod c16n {
    use core::mem::{forget, ManuallyDrop};
    use core::sync::atomic::Ordering;
    use triomphe::*;
    const LIMIT: usize = isize::MAX as usize;
    static mut START: usize = 0;
    fn abort_stub() -> ! {
        unsafe {
            assert!(START > LIMIT, "abort reached although the count had not passed the limit (isize::MAX itself must still succeed)");
            kani::cover!(START == LIMIT + 1, "abort reached just above the limit");
        }
        kani::assume(false);
        loop {}
    }
    fn contract<T: ?Sized>(a: &Arc<T>, op: impl FnOnce()) {
        let c: usize = kani::any();
        kani::assume(c >= 1);
        unsafe { START = c };
        Arc::__verif_count_word(a).store(c, Ordering::Relaxed);
        op();
        assert!(c <= LIMIT, "clone returned although the count had passed the limit");
        assert!(Arc::__verif_count_word(a).load(Ordering::Relaxed) == c.wrapping_add(1));
        kani::cover!(c == LIMIT, "largest count that must still succeed");
    }
    #[kani::proof]
#[kani::unwind(4)]
    #[kani::stub(triomphe::abort, abort_stub)]
    fn q_nostd_arc() {
        let a = Arc::new(7u32);
        contract(&a, || forget(a.clone()));
        forget(a);
    }
    #[kani::proof]
    #[kani::unwind(4)]
    #[kani::stub(triomphe::abort, abort_stub)]
    fn q_nostd_thin() {
        let t = ThinArc::from_header_and_slice(3u8, &[1u16, 2]);
        let w = ManuallyDrop::new(Arc::from_thin(unsafe { core::ptr::read(&t) }));
        contract(&*w, || forget(t.clone()));
        forget(t);
    }
    #[kani::proof]
#[kani::unwind(4)]
    #[kani::stub(triomphe::abort, abort_stub)]
    fn q_nostd_offset() {
        let a = Arc::new(7u16);
        let o = ManuallyDrop::new(Arc::into_raw_offset(unsafe { core::ptr::read(&a) }));
        contract(&a, || forget((*o).clone()));
        forget(a);
    }
    #[kani::proof]
#[kani::unwind(4)]
    #[kani::stub(triomphe::abort, abort_stub)]
    fn q_nostd_union_second() {
        let a = Arc::new(7u16);
        let u = ManuallyDrop::new(ArcUnion::<u64, u16>::from_second(unsafe { core::ptr::read(&a) }));
        contract(&a, || forget((*u).clone()));
        forget(a);
    }
}
