//! C10 — a ThinArc is an exact one-word stand-in for the fat Arc.
//!
//! BOUNDS: (H, T) cells (u8,u16) (Dt,Dt) ((),S5a16) (S33a32,u8) (u64,u64); slice length 0..=3
//!   enumerated (concrete per harness); contents symbolic; recorded length for into_thin fully
//!   symbolic; count word symbolic where a count is involved; with_arc_mut callbacks that clone,
//!   mutate header and slice, replace the Arc, and return normally.
//! ASSUME: alloc/dealloc logging stubs.
//! OUTSIDE: what happens *after* the into_thin panic ("still releases that Arc properly"): Kani ends
//!   the path at a panic. A with_arc_mut callback that replaces the Arc and then panics is decided
//!   by Engine U (wmm/unwind.py, DESIGN 10.5) as the second part of this check.
use crate::ghost::*;
use crate::kinds::*;
use core::mem::{forget, ManuallyDrop};
use triomphe::*;

macro_rules! h {
    ($name:ident, $body:expr) => {
        #[kani::proof]
        #[kani::unwind(6)]
        #[kani::stub(std::alloc::alloc, alloc_stub)]
        #[kani::stub(alloc::alloc::dealloc_nonnull, dealloc_stub)]
        fn $name() {
            crate::ghost::arm();
            $body;
            kani::cover!(true, "end of harness reached");
        }
    };
}

/// thin view == fat view, element by element and address by address; thin<->fat is count-neutral
fn views<H: Pl, T: Pl>(t: ThinArc<H, T>, n_expected: usize, ids: usize) {
    let fat0 = Arc::from_thin(t);
    assert!(fat0.header.length == fat0.slice.len(), "recorded length differs from the slice length");
    assert!(fat0.slice.len() == n_expected);
    let (st, t) = enter::<ThinArc<H, T>>(fat0, ids);
    // deref of the thin handle
    let th: &HS<H, T> = &*t;
    let fat: &HS<H, T> = &**st.w;
    assert!(th as *const HS<H, T> as *const u8 == fat as *const HS<H, T> as *const u8);
    assert!(th.slice.len() == n_expected && th.header.length == n_expected, "thin deref synthesises the wrong length");
    assert!(&th.header.header as *const H == &fat.header.header as *const H);
    assert!(th.slice.as_ptr() == fat.slice.as_ptr());
    assert!(th.sig() == st.sig, "thin view shows different contents");
    // with_arc exposes the same fat Arc
    t.with_arc(|a| {
        assert!(a.heap_ptr() as usize == st.block && a.slice.len() == n_expected);
        assert!(Arc::as_ptr(a) as *const u8 as usize == st.data);
    });
    // thin -> fat -> thin: same allocation, count untouched
    let f = Arc::from_thin(t);
    st.alive(st.c);
    assert!(f.heap_ptr() as usize == st.block && f.slice.len() == n_expected);
    let t = Arc::into_thin(f);
    st.alive(st.c);
    assert!(t.heap_ptr() as usize == st.block);
    // protected form
    let p = Arc::protected_from_thin(t);
    st.alive(st.c);
    assert!(p.length() == n_expected && p.slice().len() == n_expected && p.heap_ptr() as usize == st.block);
    assert!(p.slice().as_ptr() == fat.slice.as_ptr() && p.header() as *const H == &fat.header.header as *const H);
    let t = Arc::protected_into_thin(p);
    st.alive(st.c);
    st.covers();
    forget(t);
}
fn bytes<const N: usize>() -> [u8; N] {
    let mut b = [0x5au8; N];
    if N > 0 {
        b[0] = kani::any();
        b[N - 1] = kani::any();
    }
    b
}
macro_rules! view_cells {
    ($($name:ident $h:ty, $t:ty, $n:expr, $hv:expr, $tv:expr;)*) => {$(
        h!($name, {
            let vals: [$t; $n] = [$tv; $n];
            views::<$h, $t>(ThinArc::from_header_and_slice($hv, &vals[..]), $n, 0)
        });
    )*};
}
view_cells! {
    q_views_slice_u8_u16_n2 u8, u16, 2, kani::any(), kani::any();
    q_views_slice_u8_u16_n0 u8, u16, 0, kani::any(), kani::any();
    q_views_slice_u8_s5a16_n0 u8, S5a16, 0, kani::any(), S5a16(bytes());
    q_views_slice_unit_s5a16_n1 (), S5a16, 1, (), S5a16(bytes());
    r1_views_slice_s33a32_u8_n3 S33a32, u8, 3, S33a32(bytes()), kani::any();
    r2_views_slice_u64_u64_n1 u64, u64, 1, kani::any(), kani::any();
    t_views_slice_u8_u16_n3 u8, u16, 3, kani::any(), kani::any();
    t_views_slice_s3a2_s12a4_n2 S3a2, S12a4, 2, S3a2(bytes()), S12a4(bytes());
    t_views_slice_u16_s17a16_n3 u16, S17a16, 3, kani::any(), S17a16(bytes());
    t_views_slice_s1a64_u32_n1 S1a64, u32, 1, S1a64(bytes()), kani::any();
    t_views_slice_unit_u8_n0 (), u8, 0, (), kani::any();
}
// from an iterator, Drop-tracked header and elements
h!(q_views_iter_dt_n2, {
    let vals: [u8; 2] = kani::any();
    let t = ThinArc::from_header_and_iter(Dt::new(0, kani::any()), (0..2usize).map(|i| Dt::new(1 + i as u8, vals[i])));
    views::<Dt, Dt>(t, 2, 3)
});
h!(r0_views_iter_dt_n0, {
    let t = ThinArc::from_header_and_iter(Dt::new(0, kani::any()), (0..0usize).map(|i| Dt::new(1 + i as u8, 0)));
    views::<Dt, Dt>(t, 0, 1)
});
h!(r1_views_iter_dt_n3, {
    let vals: [u8; 3] = kani::any();
    let t = ThinArc::from_header_and_iter(Dt::new(0, kani::any()), (0..3usize).map(|i| Dt::new(1 + i as u8, vals[i])));
    views::<Dt, Dt>(t, 3, 4)
});
// obtained via into_thin of a hand-built fat Arc with the right recorded length
h!(q_views_into_thin_n2, {
    let vals: [u16; 2] = kani::any();
    let a = Arc::from_header_and_slice(HeaderWithLength::new(kani::any::<u8>(), 2), &vals[..]);
    views::<u8, u16>(Arc::into_thin(a), 2, 0)
});

// ---- into_thin refuses a fat Arc whose recorded length disagrees (for EVERY recorded value)
macro_rules! mismatch {
    ($name:ident, $n:expr) => {
        #[kani::proof]
        #[kani::unwind(6)]
        #[kani::stub(std::alloc::alloc, alloc_stub)]
        #[kani::stub(alloc::alloc::dealloc_nonnull, dealloc_stub)]
        fn $name() {
            crate::ghost::arm();
            let recorded: usize = kani::any();
            let vals: [u16; $n] = kani::any();
            let a = Arc::from_header_and_slice(HeaderWithLength::new(7u8, recorded), &vals[..]);
            assert!(a.slice.len() == $n && a.header.length == recorded);
            let t = Arc::into_thin(a);
            // only reachable when the library did not panic
            assert!(recorded == $n, "into_thin accepted a recorded length that differs from the slice length");
            assert!(t.slice.len() == $n);
            kani::cover!(true, "matching length is accepted");
            forget(t);
        }
    };
}
mismatch!(qp_into_thin_mismatch_n2, 2);
mismatch!(qp_into_thin_mismatch_n0, 0);
mismatch!(r0p_into_thin_mismatch_n3, 3);
mismatch!(r1p_into_thin_mismatch_n1, 1);
#[kani::proof]
#[kani::unwind(6)]
#[kani::stub(std::alloc::alloc, alloc_stub)]
#[kani::stub(alloc::alloc::dealloc_nonnull, dealloc_stub)]
fn qp_into_thin_mismatch_zst_elements() {
    // zero-sized elements: only the Vec constructor builds such a fat Arc
    crate::ghost::arm();
    let recorded: usize = kani::any();
    let mut v = Vec::new();
    v.push(Zst);
    v.push(Zst);
    let a = Arc::from_header_and_vec(HeaderWithLength::new(7u8, recorded), v);
    assert!(a.slice.len() == 2 && a.header.length == recorded);
    let t = Arc::into_thin(a);
    assert!(recorded == 2, "into_thin accepted a recorded length that differs from the slice length (zero-sized elements)");
    assert!(t.slice.len() == 2);
    kani::cover!(true, "matching length is accepted");
    forget(t);
}
#[kani::proof]
#[kani::unwind(6)]
#[kani::stub(std::alloc::alloc, alloc_stub)]
#[kani::stub(alloc::alloc::dealloc_nonnull, dealloc_stub)]
fn qp_into_thin_mismatch_never_returns() {
    crate::ghost::arm();
    let recorded: usize = kani::any();
    kani::assume(recorded != 2);
    let a = Arc::from_header_and_slice(HeaderWithLength::new(7u8, recorded), &[1u16, 2][..]);
    kani::cover!(recorded == 3, "too long");
    kani::cover!(recorded == 0, "too short");
    let t = Arc::into_thin(a);
    assert!(false, "into_thin returned for a mismatching recorded length");
}

// ---- with_arc_mut
h!(q_with_arc_mut_mutate, {
    // header_mut / slice_mut change contents but can never change the recorded length
    let vals: [u16; 2] = kani::any();
    let mut t = ThinArc::from_header_and_slice(kani::any::<u8>(), &vals[..]);
    let blk = t.heap_ptr();
    let (nh, n0, n1): (u8, u16, u16) = kani::any();
    let r = t.with_arc_mut(|a| {
        let m = Arc::get_mut(a).expect("sole owner");
        *m.header_mut() = nh;
        m.slice_mut()[0] = n0;
        m.slice_mut()[1] = n1;
        assert!(m.length() == 2);
        17u8
    });
    assert!(r == 17);
    assert!(t.heap_ptr() == blk && ThinArc::strong_count(&t) == 1);
    assert!(t.header.header == nh && t.header.length == 2 && t.slice.len() == 2 && t.slice[0] == n0 && t.slice[1] == n1);
    drop(t);
    assert!(n_live() == 0);
});
h!(q_with_arc_mut_replace, {
    // the callback replaces the Arc: afterwards the ThinArc points at the replacement and the
    // old allocation has lost exactly one owner
    let (a, n) = mk_hs_n::<1>();
    let (st, mut t) = enter::<ThinArc<Dt, Dt>>(a, n);
    let repl = ThinArc::from_header_and_iter(Dt::new(4, kani::any()), (0..2usize).map(|i| Dt::new(5 + i as u8, 9)));
    let rblk = repl.heap_ptr() as usize;
    let repl = ManuallyDrop::new(repl);
    t.with_arc_mut(|arc| {
        *arc = Arc::protected_from_thin(unsafe { core::ptr::read(&*repl) });
    });
    assert!(t.heap_ptr() as usize == rblk, "ThinArc does not point at the replacement");
    assert!(t.slice.len() == 2 && t.header.length == 2 && t.header.header.id == 4);
    assert!(ThinArc::strong_count(&t) == 1);
    if st.c == 1 {
        // old allocation destroyed: ids 0..2 dropped once, the replacement's (4..7) untouched
        assert!(ledger_is(0, 2), "old allocation must be destroyed exactly once when its last owner was replaced");
        assert!(block_of(st.block).is_none());
    } else {
        assert!(raw_count(&st.w) == st.c - 1, "old allocation must lose exactly one owner");
        assert!(ledger_zero());
    }
    st.covers();
    forget(t);
});
h!(q_with_arc_mut_clone_inside, {
    let (a, n) = mk_hs_n::<1>();
    let (st, mut t) = enter::<ThinArc<Dt, Dt>>(a, n);
    let kept = t.with_arc_mut(|arc| arc.clone());
    st.alive(st.c + 1);
    assert!(t.heap_ptr() as usize == st.block);
    assert!(kept.heap_ptr() as usize == st.block && kept.length() == 1);
    drop(kept);
    st.alive(st.c);
    st.covers();
    forget(t);
});


// ---- a ThinArc hashes like the fat Arc it stands for (same sequence of writes into the Hasher)
struct RecH {
    n: usize,
    sum: u64,
}
impl core::hash::Hasher for RecH {
    fn finish(&self) -> u64 {
        self.sum
    }
    fn write(&mut self, b: &[u8]) {
        self.n += 1;
        let mut acc = b.len() as u64;
        if b.len() > 0 {
            acc = acc.wrapping_mul(31).wrapping_add(b[0] as u64);
        }
        self.sum = self.sum.wrapping_mul(1_000_003).wrapping_add(acc);
    }
}
h!(q_thin_hashes_like_fat, {
    use core::hash::Hash;
    let hv: u8 = kani::any();
    let x: u8 = kani::any();
    let a = Arc::from_header_and_iter(HeaderWithLength::new(hv, 2), (0..2).map(|i| if i == 0 { x } else { 9u8 }));
    let mut h1 = RecH { n: 0, sum: 0 };
    a.hash(&mut h1);
    let t = Arc::into_thin(a);
    let mut h2 = RecH { n: 0, sum: 0 };
    t.hash(&mut h2);
    assert!(h1.n == h2.n && h1.sum == h2.sum, "a ThinArc does not hash like the fat Arc it stands for");
    forget(t);
});
