//! C02 (supporting harnesses) — ties Engine W's event templates to the compiled code, and the
//! other handle kinds to Arc's clone/drop.
//!
//! BOUNDS: (tv_*) the compiled Arc operations are run from counts 1, 2 and 3 with the atomic
//!   helper functions of core replaced by recording stubs; the recorded sequence of (operation,
//!   ordering, operand) must equal the sequential reading of the template Engine W extracted from
//!   the MIR of the same sources (table generated into c02_expected.rs on every run).
//!   (funnel_*) for a symbolic count, every clone / release / uniqueness test of ThinArc,
//!   OffsetArc, ArcUnion (both arms), ArcBorrow, UniqueArc conversions and clones made inside
//!   with_arc-style callbacks must record EXACTLY the event sequence of the corresponding Arc
//!   operation run in the same harness (differential: today's orderings are not hard-coded).
//! ASSUME: core::sync::atomic::{atomic_add, atomic_sub, atomic_load, atomic_compare_exchange, atomic_store, fence} replaced by recording
//!   stubs that perform the plain operation (Kani is sequential); alloc/dealloc logging stubs.
//! OUTSIDE: atomics reached through other core entry points (compare_exchange_weak, swap: a
//!   use of those in /repo shows up in Engine W's counter-access scan instead).
use crate::ghost::*;
use crate::kinds::*;
use core::mem::{forget, transmute_copy, ManuallyDrop};
use core::sync::atomic::Ordering;
use triomphe::*;

include!("c02_expected.rs");

#[derive(Clone, Copy, PartialEq)]
pub struct AEv {
    pub kind: u8, // 1 add, 2 sub, 3 load, 4 fence, 5 compare-exchange succeeded (operand = new value), 6 failed, 7 store (operand = value)
    pub ord: u8,
    pub operand: usize,
}
pub const NAEV: usize = 8;
pub static mut ALOG: [AEv; NAEV] = [AEv { kind: 0, ord: 0, operand: 0 }; NAEV];
pub static mut NA: usize = 0;
pub static mut WATCH: usize = 0; // address of the count word under observation

fn ord_code(o: Ordering) -> u8 {
    match o {
        Ordering::Relaxed => 0,
        Ordering::Acquire => 1,
        Ordering::Release => 2,
        Ordering::AcqRel => 3,
        Ordering::SeqCst => 4,
        _ => 9,
    }
}
unsafe fn rec(kind: u8, o: Ordering, operand: usize, addr: usize) {
    if addr != 0 && WATCH != 0 {
        assert!(addr == WATCH, "atomic access to a word that is not the allocation's count");
    }
    assert!(NA < NAEV, "event log full");
    ALOG[NA] = AEv { kind, ord: ord_code(o), operand };
    NA += 1;
}
pub unsafe fn add_stub<T: Copy, U: Copy>(dst: *mut T, val: U, order: Ordering) -> T {
    assert!(core::mem::size_of::<T>() == 8 && core::mem::size_of::<U>() == 8);
    let v: usize = transmute_copy(&val);
    rec(1, order, v, dst as usize);
    let old = *(dst as *const usize);
    *(dst as *mut usize) = old.wrapping_add(v);
    transmute_copy(&old)
}
pub unsafe fn sub_stub<T: Copy, U: Copy>(dst: *mut T, val: U, order: Ordering) -> T {
    assert!(core::mem::size_of::<T>() == 8 && core::mem::size_of::<U>() == 8);
    let v: usize = transmute_copy(&val);
    rec(2, order, v, dst as usize);
    let old = *(dst as *const usize);
    *(dst as *mut usize) = old.wrapping_sub(v);
    transmute_copy(&old)
}
pub unsafe fn load_stub<T: Copy, const B: bool>(dst: *const T, order: Ordering) -> T {
    rec(3, order, 0, dst as usize);
    *dst
}
pub unsafe fn cas_stub<T: Copy>(dst: *mut T, old: T, new: T, success: Ordering, failure: Ordering) -> Result<T, T> {
    assert!(core::mem::size_of::<T>() == 8);
    let (o, n): (usize, usize) = (transmute_copy(&old), transmute_copy(&new));
    let cur = *(dst as *const usize);
    if cur == o {
        rec(5, success, n, dst as usize);
        *(dst as *mut usize) = n;
        Ok(transmute_copy(&cur))
    } else {
        rec(6, failure, 0, dst as usize);
        Err(transmute_copy(&cur))
    }
}
pub unsafe fn store_stub<T: Copy, const B: bool>(dst: *mut T, val: T, order: Ordering) {
    assert!(core::mem::size_of::<T>() == 8);
    let v: usize = transmute_copy(&val);
    rec(7, order, v, dst as usize);
    *(dst as *mut usize) = v;
}
pub fn fence_stub(order: Ordering) {
    unsafe { rec(4, order, 0, 0) };
}
fn reset() {
    unsafe { NA = 0 };
}
fn snapshot() -> ([AEv; NAEV], usize) {
    unsafe { (ALOG, NA) }
}
fn same(a: &([AEv; NAEV], usize), b: &([AEv; NAEV], usize)) -> bool {
    let mut ok = a.1 == b.1;
    macro_rules! at {
        ($($i:expr),*) => {$( if $i < a.1 && $i < b.1 && a.0[$i] != b.0[$i] { ok = false; } )*};
    }
    at!(0, 1, 2, 3, 4, 5, 6, 7);
    ok
}
fn matches(a: &([AEv; NAEV], usize), exp: &[(u8, u8, usize)]) -> bool {
    let mut ok = a.1 == exp.len();
    macro_rules! at {
        ($($i:expr),*) => {$( if $i < a.1 && $i < exp.len() && (a.0[$i].kind, a.0[$i].ord, a.0[$i].operand) != exp[$i] { ok = false; } )*};
    }
    at!(0, 1, 2, 3, 4, 5, 6, 7);
    ok
}

macro_rules! h {
    ($name:ident, $body:expr) => {
        #[kani::proof]
        #[kani::unwind(4)]
        #[kani::stub(std::alloc::alloc, alloc_stub)]
        #[kani::stub(alloc::alloc::dealloc_nonnull, dealloc_stub)]
        #[kani::stub(core::sync::atomic::atomic_add, add_stub)]
        #[kani::stub(core::sync::atomic::atomic_sub, sub_stub)]
        #[kani::stub(core::sync::atomic::atomic_load, load_stub)]
        #[kani::stub(core::sync::atomic::fence, fence_stub)]
        #[kani::stub(core::sync::atomic::atomic_compare_exchange, cas_stub)]
        #[kani::stub(core::sync::atomic::atomic_store, store_stub)]
        fn $name() {
            crate::ghost::arm();
            $body
        }
    };
}

#[derive(Clone)]
struct V(u8);
/// an allocation with count word preset to `c` and a witness; `WATCH` armed
fn state(c: usize) -> (ManuallyDrop<Arc<V>>, Arc<V>) {
    let a = Arc::new(V(kani::any()));
    let w = ManuallyDrop::new(unsafe { core::ptr::read(&a) });
    unsafe { WATCH = Arc::as_ptr(&a) as usize - 8 };
    unsafe { *(WATCH as *mut usize) = c };
    reset();
    (w, a)
}
fn rearm(w: &Arc<V>, c: usize) {
    unsafe { *(WATCH as *mut usize) = c };
    reset();
}

// ------------------------------------------------------------------ translation validation
macro_rules! tv {
    ($name:ident, $c:expr, $exp:ident, |$h:ident| $op:expr) => {
        h!($name, {
            let (w, $h) = state($c);
            $op;
            let got = snapshot();
            assert!(matches(&got, $exp($c)), "compiled code's atomic events differ from the template extracted from the MIR");
            kani::cover!(true, "compared");
        });
    };
}
tv!(q_tv_clone_1, 1, EXP_CLONE, |h| forget((h.clone(), h)));
tv!(q_tv_clone_2, 2, EXP_CLONE, |h| forget((h.clone(), h)));
tv!(q_tv_drop_1, 1, EXP_DROP, |h| drop(h));
tv!(q_tv_drop_2, 2, EXP_DROP, |h| drop(h));
tv!(q_tv_strong_count_2, 2, EXP_STRONG_COUNT, |h| forget((Arc::strong_count(&h), h)));
tv!(q_tv_count_2, 2, EXP_COUNT, |h| forget((Arc::count(&h), h)));
tv!(q_tv_is_unique_1, 1, EXP_IS_UNIQUE, |h| forget((h.is_unique(), h)));
tv!(q_tv_get_mut_1, 1, EXP_GET_MUT, |h| {
    let mut h = h;
    let _ = Arc::get_mut(&mut h);
    forget(h)
});
tv!(q_tv_get_mut_2, 2, EXP_GET_MUT, |h| {
    let mut h = h;
    let _ = Arc::get_mut(&mut h);
    forget(h)
});
tv!(q_tv_try_unique_1, 1, EXP_TRY_UNIQUE, |h| forget(Arc::try_unique(h)));
tv!(q_tv_try_unique_2, 2, EXP_TRY_UNIQUE, |h| forget(Arc::try_unique(h)));
tv!(q_tv_try_unwrap_1, 1, EXP_TRY_UNWRAP, |h| forget(Arc::try_unwrap(h)));
tv!(q_tv_try_unwrap_3, 3, EXP_TRY_UNWRAP, |h| forget(Arc::try_unwrap(h)));
tv!(q_tv_make_mut_1, 1, EXP_MAKE_MUT, |h| {
    let mut h = h;
    let _ = Arc::make_mut(&mut h);
    forget(h)
});
tv!(q_tv_make_mut_2, 2, EXP_MAKE_MUT, |h| {
    let mut h = h;
    let _ = Arc::make_mut(&mut h);
    forget(h)
});
tv!(q_tv_unwrap_or_clone_1, 1, EXP_UNWRAP_OR_CLONE, |h| forget(Arc::unwrap_or_clone(h)));
tv!(q_tv_unwrap_or_clone_2, 2, EXP_UNWRAP_OR_CLONE, |h| forget(Arc::unwrap_or_clone(h)));

// ------------------------------------------------------------------ funnel (differential)
fn sym_count() -> usize {
    let c: usize = kani::any();
    kani::assume(c >= 1 && c <= MAXC);
    c
}
macro_rules! funnel {
    ($name:ident, |$a:ident| $reference:expr, |$b:ident| $other:expr) => {
        h!($name, {
            let c = sym_count();
            let (w, $a) = state(c);
            $reference;
            let r = snapshot();
            // a second allocation in the same state (the first may be gone by now)
            let (w2, $b) = state(c);
            $other;
            let o = snapshot();
            assert!(same(&r, &o), "this handle kind does not go through Arc's counter protocol (different atomic events)");
            assert!(r.1 >= 1, "reference operation recorded no atomic event");
            kani::cover!(c == 1);
            kani::cover!(c > 1);
        });
    };
}
// clones
funnel!(q_funnel_offset_clone, |a| forget((a.clone(), a)), |b| {
    let o = Arc::into_raw_offset(b);
    forget((o.clone(), o))
});
funnel!(q_funnel_offset_clone_arc, |a| forget((a.clone(), a)), |b| {
    let o = Arc::into_raw_offset(b);
    forget((o.clone_arc(), o))
});
funnel!(q_funnel_borrow_clone_arc, |a| forget((a.clone(), a)), |b| {
    forget((b.borrow_arc().clone_arc(), b))
});
funnel!(q_funnel_union1_clone, |a| forget((a.clone(), a)), |b| {
    let u = ArcUnion::<V, u32>::from_first(b);
    forget((u.clone(), u))
});
funnel!(q_funnel_union2_clone, |a| forget((a.clone(), a)), |b| {
    let u = ArcUnion::<u32, V>::from_second(b);
    forget((u.clone(), u))
});
funnel!(q_funnel_with_arc_clone, |a| forget((a.clone(), a)), |b| {
    let o = Arc::into_raw_offset(b);
    forget((o.with_arc(|x| x.clone()), o))
});
funnel!(q_funnel_with_raw_offset_arc_clone, |a| forget((a.clone(), a)), |b| {
    forget((b.with_raw_offset_arc(|x| x.clone()), b))
});
// releases
funnel!(q_funnel_offset_drop, |a| drop(a), |b| drop(Arc::into_raw_offset(b)));
funnel!(q_funnel_union1_drop, |a| drop(a), |b| drop(ArcUnion::<V, u32>::from_first(b)));
funnel!(q_funnel_union2_drop, |a| drop(a), |b| drop(ArcUnion::<u32, V>::from_second(b)));
funnel!(q_funnel_unique_drop, |a| drop(a), |b| {
    // a UniqueArc is only ever built from a sole owner: compare at whatever the count is
    drop(unsafe { core::mem::transmute::<Arc<V>, UniqueArc<V>>(b) })
});
// uniqueness tests reached through other entry points
funnel!(q_funnel_get_unique, |a| {
    let mut a = a;
    let _ = Arc::get_mut(&mut a);
    forget(a)
}, |b| {
    let mut b = b;
    let _ = Arc::get_unique(&mut b);
    forget(b)
});
funnel!(q_funnel_try_from, |a| forget(Arc::try_unique(a)), |b| forget(<UniqueArc<V> as core::convert::TryFrom<Arc<V>>>::try_from(b)));
funnel!(q_funnel_make_unique, |a| {
    let mut a = a;
    let _ = Arc::make_mut(&mut a);
    forget(a)
}, |b| {
    let mut b = b;
    let _ = Arc::make_unique(&mut b);
    forget(b)
});
funnel!(q_funnel_offset_make_mut, |a| {
    let mut a = a;
    let _ = Arc::make_mut(&mut a);
    forget(a)
}, |b| {
    let mut o = Arc::into_raw_offset(b);
    let _ = o.make_mut();
    forget(o)
});
funnel!(q_funnel_counts, |a| forget((Arc::strong_count(&a), a)), |b| {
    let o = Arc::into_raw_offset(b);
    forget((OffsetArc::strong_count(&o), o))
});
funnel!(q_funnel_borrow_count, |a| forget((Arc::strong_count(&a), a)), |b| {
    forget((ArcBorrow::strong_count(&b.borrow_arc()), b))
});

// ThinArc: its own payload type
fn thin_state(c: usize) -> (ManuallyDrop<Arc<HS<u8, u16>>>, Arc<HS<u8, u16>>) {
    let a = Arc::from_header_and_slice(HeaderWithLength::new(kani::any::<u8>(), 2), &[1u16, 2][..]);
    let w = ManuallyDrop::new(unsafe { core::ptr::read(&a) });
    unsafe { WATCH = a.heap_ptr() as usize };
    unsafe { *(WATCH as *mut usize) = c };
    reset();
    (w, a)
}
macro_rules! thin_funnel {
    ($name:ident, |$a:ident| $reference:expr, |$b:ident| $other:expr) => {
        h!($name, {
            let c = sym_count();
            let (w, $a) = thin_state(c);
            $reference;
            let r = snapshot();
            let (w2, b2) = thin_state(c);
            let $b = Arc::into_thin(b2);
            reset();
            $other;
            let o = snapshot();
            assert!(same(&r, &o), "ThinArc does not go through Arc's counter protocol (different atomic events)");
            assert!(r.1 >= 1);
            kani::cover!(c == 1);
            kani::cover!(c > 1);
        });
    };
}
thin_funnel!(q_funnel_thin_clone, |a| forget((a.clone(), a)), |t| forget((t.clone(), t)));
thin_funnel!(q_funnel_thin_drop, |a| drop(a), |t| drop(t));
thin_funnel!(q_funnel_thin_with_arc_clone, |a| forget((a.clone(), a)), |t| forget((t.with_arc(|x| x.clone()), t)));
thin_funnel!(q_funnel_thin_count, |a| forget((Arc::strong_count(&a), a)), |t| forget((ThinArc::strong_count(&t), t)));
thin_funnel!(q_funnel_thin_with_arc_mut_get_mut, |a| {
    let mut a = a;
    let _ = Arc::get_mut(&mut a);
    forget(a)
}, |t| {
    let mut t = t;
    t.with_arc_mut(|x| {
        let _ = Arc::get_mut(x);
    });
    forget(t)
});
