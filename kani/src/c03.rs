//! C03 (sequential half) — mutable access only for a sole owner.
//!
//! BOUNDS: one uniqueness-gated operation from an arbitrary valid state: count word free in
//!   [1, isize::MAX-2]; payloads: Drop-tracked sized value, header+slice (len 2) behind ThinArc,
//!   MaybeUninit value / slice (deprecated writers), dyn Trait. Verdict must be `c == 1`.
//! ASSUME: alloc/dealloc logging stubs; count preset through the cfg(triomphe_verif) hook. By C04
//!   the count equals the number of owning handles of all kinds, so `c == 1` is "no other owner".
//! BOUNDS: (real_coowner_*) a two-owner history built with each other kind's own from/clone/drop (OffsetArc,
//!   ArcUnion either arm, raw pointer, arc-swap pointer, ThinArc): every gate declines, then grants once it is gone.
//! OUTSIDE: the ordering half of C03 (weak-memory engine); unwinding.
use crate::ghost::*;
use crate::kinds::*;
use core::convert::TryFrom;
use core::mem::{forget, ManuallyDrop, MaybeUninit};
use triomphe::*;

macro_rules! h {
    ($name:ident, $body:expr) => {
        #[kani::proof]
        #[kani::unwind(5)]
        #[kani::stub(std::alloc::alloc, alloc_stub)]
        #[kani::stub(alloc::alloc::dealloc_nonnull, dealloc_stub)]
        #[kani::stub(core::sync::atomic::atomic_compare_exchange_weak, cas_weak_stub)]
        fn $name() {
            crate::ghost::arm();
            $body;
            kani::cover!(true, "end of harness reached");
        }
    };
}

h!(q_get_mut, {
    let (a, n) = mk_dt();
    let (st, mut h) = enter::<Arc<Dt>>(a, n);
    match Arc::get_mut(&mut h) {
        Some(m) => {
            assert!(st.c == 1, "get_mut granted &mut while other owners exist");
            assert!(m as *mut Dt as usize == st.data, "&mut does not alias the payload");
        }
        None => assert!(st.c != 1, "get_mut declined a sole owner"),
    }
    assert!(h.heap_ptr() as usize == st.block, "handle changed");
    st.alive(st.c);
    st.covers();
    forget(h);
});

h!(q_get_unique, {
    let (a, n) = mk_dt();
    let (st, mut h) = enter::<Arc<Dt>>(a, n);
    match Arc::get_unique(&mut h) {
        Some(u) => {
            assert!(st.c == 1, "get_unique granted while other owners exist");
            assert!(&mut **u as *mut Dt as usize == st.data);
        }
        None => assert!(st.c != 1, "get_unique declined a sole owner"),
    }
    assert!(h.heap_ptr() as usize == st.block);
    st.alive(st.c);
    st.covers();
    forget(h);
});

h!(q_is_unique, {
    let (a, n) = mk_dt();
    let (st, h) = enter::<Arc<Dt>>(a, n);
    assert!(h.is_unique() == (st.c == 1), "is_unique verdict differs from 'count is one'");
    st.alive(st.c);
    st.covers();
    forget(h);
});

h!(q_is_unique_dyn, {
    let (a, n) = mk_dyn();
    let (st, h) = enter::<Arc<dyn Tr>>(a, n);
    assert!(h.is_unique() == (st.c == 1));
    st.alive(st.c);
    st.covers();
    forget(h);
});

h!(q_try_unique, {
    let (a, n) = mk_dt();
    let (st, h) = enter::<Arc<Dt>>(a, n);
    match Arc::try_unique(h) {
        Ok(u) => {
            assert!(st.c == 1, "try_unique succeeded while other owners exist");
            assert!(&*u as *const Dt as usize == st.data);
            st.alive(1);
            forget(u);
        }
        Err(back) => {
            assert!(st.c != 1, "try_unique declined a sole owner");
            assert!(back.heap_ptr() as usize == st.block, "Err carries a different handle");
            st.alive(st.c);
            forget(back);
        }
    }
    st.covers();
});

h!(q_try_from, {
    let (a, n) = mk_dt();
    let (st, h) = enter::<Arc<Dt>>(a, n);
    match UniqueArc::try_from(h) {
        Ok(u) => {
            assert!(st.c == 1);
            let back = u.shareable();
            assert!(back.heap_ptr() as usize == st.block);
            st.alive(1);
            forget(back);
        }
        Err(back) => {
            assert!(st.c != 1);
            assert!(back.heap_ptr() as usize == st.block);
            st.alive(st.c);
            forget(back);
        }
    }
    st.covers();
});

// make_mut / make_unique: the in-place branch is taken exactly for a sole owner
h!(q_make_mut_inplace_iff_unique, {
    let (a, n) = mk_dt();
    let (st, mut h) = enter::<Arc<Dt>>(a, n);
    let m = Arc::make_mut(&mut h) as *mut Dt as usize;
    assert!((m == st.data) == (st.c == 1), "make_mut wrote in place while shared, or copied a sole owner");
    st.covers();
    forget(h);
});
h!(q_make_unique_inplace_iff_unique, {
    let (a, n) = mk_dt();
    let (st, mut h) = enter::<Arc<Dt>>(a, n);
    let m = &mut **Arc::make_unique(&mut h) as *mut Dt as usize;
    assert!((m == st.data) == (st.c == 1));
    st.covers();
    forget(h);
});

// the same gates reached through ThinArc::with_arc_mut
h!(q_thin_with_arc_mut_get_mut, {
    let (a, n) = mk_hs_n::<2>();
    let (st, mut t) = enter::<ThinArc<Dt, Dt>>(a, n);
    let granted = t.with_arc_mut(|arc| Arc::get_mut(arc).is_some());
    assert!(granted == (st.c == 1), "get_mut via with_arc_mut: verdict differs from 'count is one'");
    assert!(t.heap_ptr() as usize == st.block);
    st.alive(st.c);
    st.covers();
    forget(t);
});
h!(q_thin_with_arc_mut_get_unique, {
    let (a, n) = mk_hs_n::<2>();
    let (st, mut t) = enter::<ThinArc<Dt, Dt>>(a, n);
    let granted = t.with_arc_mut(|arc| Arc::get_unique(arc).is_some());
    assert!(granted == (st.c == 1));
    st.alive(st.c);
    st.covers();
    forget(t);
});

// deprecated writers: refuse (panic) unless sole owner
#[kani::proof]
#[kani::unwind(5)]
#[kani::stub(std::alloc::alloc, alloc_stub)]
#[kani::stub(alloc::alloc::dealloc_nonnull, dealloc_stub)]
fn qp_deprecated_write_gate() {
    crate::ghost::arm();
    let a: Arc<MaybeUninit<u16>> = Arc::new_uninit();
    let w = ManuallyDrop::new(unsafe { core::ptr::read(&a) });
    let mut h = a;
    let c: usize = kani::any();
    kani::assume(c >= 1 && c <= MAXC);
    set_count(&w, c);
    let v: u16 = kani::any();
    let r = h.write(v) as *mut u16 as usize;
    // only reachable when the library did not panic
    assert!(c == 1, "deprecated Arc::write went ahead on a shared Arc");
    assert!(r == Arc::as_ptr(&w) as usize);
    assert!(unsafe { *(Arc::as_ptr(&w) as *const u16) } == v);
    kani::cover!(true, "write on a sole owner returns");
    forget(h);
}
#[kani::proof]
#[kani::unwind(5)]
#[kani::stub(std::alloc::alloc, alloc_stub)]
#[kani::stub(alloc::alloc::dealloc_nonnull, dealloc_stub)]
fn qp_deprecated_as_mut_slice_gate() {
    crate::ghost::arm();
    let a: Arc<[MaybeUninit<u16>]> = Arc::new_uninit_slice(2);
    let w = ManuallyDrop::new(unsafe { core::ptr::read(&a) });
    let mut h = a;
    let c: usize = kani::any();
    kani::assume(c >= 1 && c <= MAXC);
    set_count(&w, c);
    let s = h.as_mut_slice();
    assert!(c == 1, "deprecated as_mut_slice went ahead on a shared Arc");
    assert!(s.len() == 2 && s.as_mut_ptr() as usize == Arc::as_ptr(&w) as *const u8 as usize);
    kani::cover!(true, "as_mut_slice on a sole owner returns");
    forget(h);
}
// twin: the shared case must not return (the only allowed outcome is the library's panic)
#[kani::proof]
#[kani::unwind(5)]
#[kani::stub(std::alloc::alloc, alloc_stub)]
#[kani::stub(alloc::alloc::dealloc_nonnull, dealloc_stub)]
fn qp_deprecated_write_shared_refused() {
    crate::ghost::arm();
    let a: Arc<MaybeUninit<u16>> = Arc::new_uninit();
    let b = a.clone();
    let mut h = a;
    kani::cover!(true, "reached the shared write");
    h.write(7);
    assert!(false, "deprecated Arc::write returned on a shared Arc");
}

// zero-sized payload: the gates must not be short-circuited on the payload's size
#[derive(Clone)]
struct Z0;
h!(q_gates_zst, {
    let a = Arc::new(Z0);
    let w = ManuallyDrop::new(unsafe { core::ptr::read(&a) });
    let mut h = a;
    let c: usize = kani::any();
    kani::assume(c >= 1 && c <= MAXC);
    set_count(&w, c);
    assert!(Arc::get_mut(&mut h).is_some() == (c == 1), "get_mut on a zero-sized payload: verdict differs from 'count is one'");
    assert!(h.is_unique() == (c == 1));
    let _ = Arc::make_mut(&mut h);
    assert!(Arc::ptr_eq(&h, &w) == (c == 1), "make_mut on a zero-sized payload: in place while shared, or copied a sole owner");
    assert!(Arc::count(&h) == 1);
    kani::cover!(c == 1);
    kani::cover!(c == 2);
    forget(h);
});


// ---- the other owner is a REAL handle of another kind, made and cloned through that kind's own operations
//      (no preset count): while it exists every gate must decline; once it is gone every gate must grant
fn gates_with_real_coowner<K: Kind<P = Dt>>() {
    let v: u8 = kani::any();
    let mut a = Arc::new(Dt::new(0, v));
    let h = K::from_arc(a.clone());
    let h2 = h.dup();
    h.release();
    // owners: a, h2
    assert!(!a.is_unique(), "is_unique although a handle of another kind still owns the value");
    assert!(Arc::get_mut(&mut a).is_none(), "get_mut granted although a handle of another kind still owns the value");
    assert!(Arc::get_unique(&mut a).is_none());
    let mut a = match Arc::try_unique(a) {
        Ok(_) => panic!("try_unique granted although a handle of another kind still owns the value"),
        Err(a) => a,
    };
    assert!(h2.data_addr() == Arc::as_ptr(&a) as usize && ledger_zero());
    h2.release();
    assert!(ledger_zero(), "the value died with a co-owner although the Arc is still there");
    assert!(a.is_unique() && Arc::get_mut(&mut a).is_some(), "a sole owner was declined");
    drop(a);
    assert!(ledger_is(0, 1) && n_live() == 0);
}
h!(q_real_coowner_offset, gates_with_real_coowner::<OffsetArc<Dt>>());
h!(q_real_coowner_union2, gates_with_real_coowner::<U2<Dt>>());
h!(r0_real_coowner_union1, gates_with_real_coowner::<U1<Dt>>());
h!(r1_real_coowner_raw, gates_with_real_coowner::<Raw<Dt>>());
h!(q_real_coowner_swap, gates_with_real_coowner::<Swp<Dt>>());
h!(q_real_coowner_thin, {
    let v: u8 = kani::any();
    let mut a = Arc::from_header_and_iter(HeaderWithLength::new(Dt::new(0, v), 1), (0..1).map(|_| Dt::new(1, v)));
    let t = Arc::into_thin(a.clone());
    let t2 = t.clone();
    drop(t);
    assert!(!a.is_unique() && Arc::get_mut(&mut a).is_none(), "gate granted although a ThinArc still owns the value");
    drop(t2);
    assert!(ledger_zero());
    assert!(a.is_unique() && Arc::get_mut(&mut a).is_some(), "a sole owner was declined");
    drop(a);
    assert!(ledger_is(0, 2) && n_live() == 0);
});

h!(q_real_coowner_overaligned_borrow_clone, {
    // the count word of an over-aligned payload is not the word in front of the data
    let mut a = Arc::new(S33a32(kani::any()));
    let b = a.borrow_arc().clone_arc();
    let o = Arc::into_raw_offset(a.clone());
    let o2 = o.clone();
    drop(o);
    assert!(!a.is_unique() && Arc::get_mut(&mut a).is_none(), "gate granted although two other handles exist");
    drop(b);
    assert!(!a.is_unique() && Arc::get_mut(&mut a).is_none(), "gate granted although an OffsetArc clone still owns the value");
    drop(o2);
    assert!(a.is_unique() && Arc::get_mut(&mut a).is_some(), "a sole owner was declined");
    drop(a);
    assert!(n_live() == 0);
});
