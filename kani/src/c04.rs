//! C04 — the reported reference count equals the number of owning handles.
//!
//! BOUNDS: inductive step: from an arbitrary valid state with count word c free in
//!   [1, isize::MAX-2] (= number of owning handles, by induction), every accessor of every handle
//!   kind reports c; after one clone-style op c+1; after one release c-1; borrow-style ops
//!   (borrow_arc, with_arc, with_raw_offset_arc, with_arc_mut, as_ptr, Deref), comparisons,
//!   hashing and formatting leave it at c, also when read *inside* the borrow callback.
//!   Payloads: Drop-tracked sized value, over-aligned (align 32) value, header+slice (len 2) for ThinArc.
//! BOUNDS: (real_history_*) a five-step history with no preset count through each other kind's own from / clone /
//!   release / into operations, the count read through both handles after every step.
//! ASSUME: alloc/dealloc logging stubs; count preset through the cfg(triomphe_verif) hook.
//! OUTSIDE: concurrent histories (C02); unwinding out of a callback (C07).
use crate::ghost::*;
use crate::kinds::*;
use core::mem::{forget, ManuallyDrop};
use triomphe::*;

macro_rules! h {
    ($name:ident, $body:expr) => {
        #[kani::proof]
        #[kani::unwind(5)]
        #[kani::stub(std::alloc::alloc, alloc_stub)]
        #[kani::stub(alloc::alloc::dealloc_nonnull, dealloc_stub)]
        fn $name() {
            crate::ghost::arm();
            $body;
            kani::cover!(true, "end of harness reached");
        }
    };
}

fn accessors<K: Kind>(a: Arc<K::P>, n: usize)
where
    K::P: Pl,
{
    let (st, h) = enter::<K>(a, n);
    assert!(h.count_all() == st.c, "an accessor does not report the number of owners");
    st.alive(st.c);
    st.covers();
    forget(h);
}
fn accessors_after_clone<K: Kind>(a: Arc<K::P>, n: usize)
where
    K::P: Pl,
{
    let (st, h) = enter::<K>(a, n);
    let h2 = h.dup();
    assert!(h2.count_all() == st.c + 1, "clone did not raise the reported count by exactly one");
    st.covers();
    forget(h);
    forget(h2);
}
fn accessors_after_release<K: Kind>(a: Arc<K::P>, n: usize)
where
    K::P: Pl,
{
    let (st, h) = enter::<K>(a, n);
    kani::assume(st.c >= 2);
    let h2 = h.dup();
    h.release();
    assert!(h2.count_light() == st.c, "release did not lower the reported count by exactly one");
    h2.release();
    st.alive(st.c - 1);
    kani::cover!(st.c == 2);
}
macro_rules! acc {
    ($a:ident, $b:ident, $c:ident, $k:ty, $mk:expr) => {
        h!($a, {
            let (a, n) = $mk;
            accessors::<$k>(a, n)
        });
        h!($b, {
            let (a, n) = $mk;
            accessors_after_clone::<$k>(a, n)
        });
        h!($c, {
            let (a, n) = $mk;
            accessors_after_release::<$k>(a, n)
        });
    };
}
acc!(q_acc_arc, q_acc_clone_arc, q_acc_rel_arc, Arc<Dt>, mk_dt());
acc!(q_acc_offset, q_acc_clone_offset, q_acc_rel_offset, OffsetArc<Dt>, mk_dt());
acc!(q_acc_union1, q_acc_clone_union1, q_acc_rel_union1, U1<Dt>, mk_dt());
acc!(q_acc_union2, q_acc_clone_union2, q_acc_rel_union2, U2<Dt>, mk_dt());
acc!(q_acc_raw, q_acc_clone_raw, q_acc_rel_raw, Raw<Dt>, mk_dt());
acc!(q_acc_thin, q_acc_clone_thin, q_acc_rel_thin, ThinArc<Dt, Dt>, mk_hs_n::<2>());
acc!(r0_acc_rawthin, r0_acc_clone_rawthin, r0_acc_rel_rawthin, RawThin<Dt, Dt>, mk_hs_n::<1>());
acc!(q_acc_swap, q_acc_clone_swap, r1_acc_rel_swap, Swp<Dt>, mk_dt());
acc!(r2_acc_swapthin, q_acc_clone_swapthin, r0_acc_rel_swapthin, SwpThin<Dt, Dt>, mk_hs_n::<1>());
// over-aligned payload: the count word is NOT the word right in front of the data (padding is)
acc!(q_acc_offset_a32, q_acc_clone_offset_a32, r1_acc_rel_offset_a32, OffsetArc<S33a32>, mk_a32());
// (accessors only: the clone / release variants of this cell need > 14 GB in CBMC on some code shapes)
h!(q_acc_union2_a32, {
    let (a, n) = mk_a32();
    accessors::<U2<S33a32>>(a, n)
});
acc!(r2_acc_arc_a32, r1_acc_clone_arc_a32, r0_acc_rel_arc_a32, Arc<S33a32>, mk_a32());
acc!(r0_acc_raw_a32, r2_acc_clone_raw_a32, r2_acc_rel_raw_a32, Raw<S33a32>, mk_a32());
acc!(r2_acc_arc_dyn, r2_acc_clone_arc_dyn, r2_acc_rel_arc_dyn, Arc<dyn Tr>, mk_dyn());

// ---------------------------------------------------------------- inside borrow callbacks
h!(q_in_with_raw_offset_arc, {
    let (a, n) = mk_dt();
    let (st, h) = enter::<Arc<Dt>>(a, n);
    let inside = h.with_raw_offset_arc(|o| {
        assert!(raw_count(&st.w) == st.c, "borrow changed the count while in use");
        OffsetArc::strong_count(o)
    });
    assert!(inside == st.c);
    st.alive(st.c);
    st.covers();
    forget(h);
});
h!(q_in_borrow_arc_with_arc, {
    let (a, n) = mk_dt();
    let (st, h) = enter::<Arc<Dt>>(a, n);
    let b = h.borrow_arc();
    assert!(raw_count(&st.w) == st.c);
    assert!(ArcBorrow::strong_count(&b) == st.c);
    let inside = b.with_arc(|x| {
        assert!(raw_count(&st.w) == st.c, "borrow changed the count while in use");
        Arc::count(x)
    });
    assert!(inside == st.c);
    let b2 = b; // ArcBorrow is Copy: copies are not owners
    assert!(ArcBorrow::strong_count(&b2) == st.c);
    st.alive(st.c);
    let promoted = b.clone_arc();
    st.alive(st.c + 1);
    st.covers();
    forget(promoted);
    forget(h);
});
h!(q_in_offset_with_arc, {
    let (a, n) = mk_dt();
    let (st, h) = enter::<OffsetArc<Dt>>(a, n);
    let inside = h.with_arc(|x| {
        assert!(raw_count(&st.w) == st.c, "borrow changed the count while in use");
        Arc::strong_count(x)
    });
    assert!(inside == st.c);
    let b = h.borrow_arc();
    assert!(ArcBorrow::strong_count(&b) == st.c);
    st.alive(st.c);
    st.covers();
    forget(h);
});
h!(q_in_thin_with_arc, {
    let (a, n) = mk_hs_n::<2>();
    let (st, h) = enter::<ThinArc<Dt, Dt>>(a, n);
    let inside = h.with_arc(|x| {
        assert!(raw_count(&st.w) == st.c, "borrow changed the count while in use");
        Arc::count(x)
    });
    assert!(inside == st.c);
    st.alive(st.c);
    st.covers();
    forget(h);
});
h!(q_in_thin_with_arc_mut, {
    let (a, n) = mk_hs_n::<2>();
    let (st, mut h) = enter::<ThinArc<Dt, Dt>>(a, n);
    let inside = h.with_arc_mut(|x| {
        assert!(raw_count(&st.w) == st.c, "borrow changed the count while in use");
        Arc::count(x)
    });
    assert!(inside == st.c);
    assert!(h.heap_ptr() as usize == st.block);
    st.alive(st.c);
    st.covers();
    forget(h);
});
h!(q_in_thin_with_arc_clone_kept, {
    // a clone made inside the callback and kept is one more owner
    let (a, n) = mk_hs_n::<1>();
    let (st, h) = enter::<ThinArc<Dt, Dt>>(a, n);
    let kept = h.with_arc(|x| x.clone());
    st.alive(st.c + 1);
    assert!(ThinArc::strong_count(&h) == st.c + 1);
    drop(kept);
    st.alive(st.c);
    st.covers();
    forget(h);
});
h!(q_in_union_borrow, {
    let (a, n) = mk_dt();
    let (st, h) = enter::<U2<Dt>>(a, n);
    let b = h.0.borrow();
    assert!(raw_count(&st.w) == st.c);
    assert!(ArcUnionBorrow::strong_count(&b) == st.c);
    st.alive(st.c);
    st.covers();
    forget(h);
});

// ---------------------------------------------------------------- count-neutral operations
struct RecHasher(u64);
impl core::hash::Hasher for RecHasher {
    fn finish(&self) -> u64 {
        self.0
    }
    fn write(&mut self, b: &[u8]) {
        self.0 = self.0.wrapping_add(b.len() as u64);
    }
}
// `Plain`'s own comparison / hash / format impls look at the count word of a watched allocation while they run:
// "never change the count, not even while the borrow is in use"
static mut SPY_WORD: *const usize = core::ptr::null();
static mut SPY_CALLS: usize = 0;
static mut SPY_MIN: usize = usize::MAX;
static mut SPY_MAX: usize = 0;
fn spy() {
    unsafe {
        if !SPY_WORD.is_null() {
            let c = *SPY_WORD;
            SPY_CALLS += 1;
            if c < SPY_MIN {
                SPY_MIN = c;
            }
            if c > SPY_MAX {
                SPY_MAX = c;
            }
        }
    }
}
fn spy_on(block: usize) {
    unsafe {
        SPY_WORD = block as *const usize;
        SPY_CALLS = 0;
        SPY_MIN = usize::MAX;
        SPY_MAX = 0;
    }
}
fn spy_saw_only(c: usize) {
    unsafe {
        assert!(SPY_CALLS > 0, "the payload's own impl was never run");
        assert!(SPY_MIN == c && SPY_MAX == c, "the count differed from the number of owners while a comparison / hash / format was running");
        SPY_WORD = core::ptr::null();
    }
}
struct Plain(u8);
impl PartialEq for Plain {
    fn eq(&self, o: &Plain) -> bool {
        spy();
        self.0 == o.0
    }
}
impl Eq for Plain {}
impl PartialOrd for Plain {
    fn partial_cmp(&self, o: &Plain) -> Option<core::cmp::Ordering> {
        spy();
        self.0.partial_cmp(&o.0)
    }
}
impl Ord for Plain {
    fn cmp(&self, o: &Plain) -> core::cmp::Ordering {
        spy();
        self.0.cmp(&o.0)
    }
}
impl core::hash::Hash for Plain {
    fn hash<H: core::hash::Hasher>(&self, h: &mut H) {
        spy();
        h.write_u8(self.0)
    }
}
impl core::fmt::Debug for Plain {
    fn fmt(&self, f: &mut core::fmt::Formatter) -> core::fmt::Result {
        spy();
        Ok(())
    }
}
impl Pl for Plain {
    fn sig(&self) -> u32 {
        self.0 as u32
    }
}
h!(q_neutral_compare_hash_deref, {
    use core::hash::Hash;
    let a = Arc::new(Plain(kani::any()));
    let other = Arc::new(Plain(kani::any()));
    let (st, h) = enter::<Arc<Plain>>(a, 0);
    spy_on(st.block);
    let _ = h == other;
    let _ = h != other;
    let _ = h < other;
    let _ = h.cmp(&other);
    let _ = h.partial_cmp(&other);
    let mut hs = RecHasher(0);
    h.hash(&mut hs);
    spy_saw_only(st.c);
    let _ = (*h).0;
    let _ = Arc::as_ptr(&h);
    let _ = h.heap_ptr();
    let _ = Arc::ptr_eq(&h, &other);
    let r: &Plain = core::borrow::Borrow::borrow(&h);
    let r2: &Plain = h.as_ref();
    st.alive(st.c);
    assert!(Arc::count(&other) == 1);
    // moving the handle around is not an operation on the count
    let boxed = [h];
    let [h] = boxed;
    st.alive(st.c);
    st.covers();
    forget(h);
});
h!(q_neutral_thin_compare_hash, {
    use core::hash::Hash;
    let (a, n) = mk_hs_u16_n::<2>();
    let (b, _) = mk_hs_u16_n::<2>();
    let tb = Arc::into_thin(b);
    let (st, h) = enter::<ThinArc<u8, u16>>(a, n);
    let _ = h == tb;
    let _ = h.cmp(&tb);
    let _ = h.partial_cmp(&tb);
    let mut hs = RecHasher(0);
    h.hash(&mut hs);
    let _ = h.slice.len();
    let _ = h.as_ptr();
    st.alive(st.c);
    assert!(ThinArc::strong_count(&tb) == 1);
    st.covers();
    forget(h);
});
h!(q_neutral_thin_compare_hash_inside, {
    use core::hash::Hash;
    let a = Arc::from_header_and_iter(HeaderWithLength::new(Plain(kani::any()), 1), (0..1).map(|_| Plain(kani::any())));
    let b = Arc::from_header_and_iter(HeaderWithLength::new(Plain(kani::any()), 1), (0..1).map(|_| Plain(kani::any())));
    let tb = Arc::into_thin(b);
    let blk = a.heap_ptr() as usize;
    let w = ManuallyDrop::new(unsafe { core::ptr::read(&a) });
    let t = Arc::into_thin(a);
    let c: usize = kani::any();
    kani::assume(c >= 1 && c <= MAXC);
    set_count(&w, c);
    spy_on(blk);
    let _ = t == tb;
    let _ = tb == t;
    let _ = t.partial_cmp(&tb);
    let _ = t.cmp(&tb);
    let mut hs = RecHasher(0);
    t.hash(&mut hs);
    spy_saw_only(c);
    assert!(raw_count(&w) == c && ThinArc::strong_count(&tb) == 1);
    forget(t);
});
h!(q_neutral_offset_union_compare, {
    let a = Arc::new(Plain(kani::any()));
    let other = Arc::into_raw_offset(Arc::new(Plain(kani::any())));
    let (st, h) = enter::<OffsetArc<Plain>>(a, 0);
    spy_on(st.block);
    let _ = h == other;
    let _ = h != other;
    spy_saw_only(st.c);
    let _ = (*h).0;
    st.alive(st.c);
    let u = U1::<Plain>::from_arc(Arc::from_raw_offset(h));
    let v = ArcUnion::<Plain, Oth>::from_first(Arc::from_raw_offset(other));
    spy_on(st.block);
    let _ = u.0 == v;
    spy_saw_only(st.c);
    let _ = ArcUnion::ptr_eq(&u.0, &v);
    st.alive(st.c);
    assert!(ArcUnion::strong_count(&v) == 1);
    st.covers();
    forget(u);
});
h!(r0_neutral_fmt, {
    use core::fmt::Write;
    struct Sink;
    impl core::fmt::Write for Sink {
        fn write_str(&mut self, _: &str) -> core::fmt::Result {
            Ok(())
        }
    }
    let a = Arc::new(Plain(kani::any()));
    let (st, h) = enter::<Arc<Plain>>(a, 0);
    spy_on(st.block);
    let _ = core::fmt::write(&mut Sink, format_args!("{:?}", h));
    spy_saw_only(st.c);
    st.alive(st.c);
    st.covers();
    forget(h);
});


// ---- no preset count: counts after a short real history through another kind's own operations, read through
//      every accessor of both handles after every step
fn counts_real_history<K: Kind<P = Dt>>() {
    let a = Arc::new(Dt::new(0, kani::any()));
    assert!(Arc::count(&a) == 1 && Arc::strong_count(&a) == 1);
    let k1 = K::from_arc(a.clone());
    assert!(Arc::count(&a) == 2 && k1.count_light() == 2, "conversion from a clone: two owners");
    let k2 = k1.dup();
    assert!(Arc::count(&a) == 3 && k2.count_light() == 3, "clone through the other kind: three owners");
    k1.release();
    assert!(Arc::count(&a) == 2 && k2.count_light() == 2, "release through the other kind: two owners");
    let back = k2.into_arc();
    assert!(Arc::count(&a) == 2 && Arc::count(&back) == 2, "conversion back: still two owners");
    drop(back);
    assert!(Arc::count(&a) == 1 && a.is_unique() && ledger_zero());
    drop(a);
    assert!(ledger_is(0, 1) && n_live() == 0);
}
h!(q_real_history_offset, counts_real_history::<OffsetArc<Dt>>());
h!(q_real_history_union2, counts_real_history::<U2<Dt>>());
h!(r0_real_history_union1, counts_real_history::<U1<Dt>>());
h!(r1_real_history_raw, counts_real_history::<Raw<Dt>>());
h!(r2_real_history_swap, counts_real_history::<Swp<Dt>>());
h!(q_real_history_thin, {
    let a = Arc::from_header_and_iter(HeaderWithLength::new(Dt::new(0, kani::any()), 1), (0..1).map(|_| Dt::new(1, 0)));
    let t1 = Arc::into_thin(a.clone());
    assert!(Arc::count(&a) == 2 && ThinArc::strong_count(&t1) == 2);
    let t2 = t1.clone();
    assert!(Arc::count(&a) == 3 && ThinArc::strong_count(&t2) == 3);
    drop(t1);
    assert!(Arc::count(&a) == 2);
    let back = Arc::from_thin(t2);
    assert!(Arc::count(&a) == 2 && Arc::count(&back) == 2);
    drop(back);
    assert!(Arc::count(&a) == 1 && ledger_zero());
    drop(a);
    assert!(ledger_is(0, 2) && n_live() == 0);
});
