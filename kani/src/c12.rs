//! C12 — an ArcUnion remembers which variant it holds and treats it as that type.
//!
//! BOUNDS: ordered payload pairs (A, B): (Dt, S33a32) (S33a32, Dt) (u8, u8) (Zst, u64) (u64, Zst)
//!   (Dt, Dt) (S1a1, S5a16) (S1a64, S3a1); both constructors; one clone / drop / borrow /
//!   clone_arc step from an arbitrary valid state (count word free in [1, isize::MAX-2]).
//! ASSUME: alloc/dealloc logging stubs (release with the wrong type's layout fails the log).
//! OUTSIDE: pairs not listed.
use crate::ghost::*;
use crate::kinds::*;
use core::mem::{forget, size_of, ManuallyDrop};
use triomphe::*;

macro_rules! h {
    ($name:ident, $body:expr) => {
        #[kani::proof]
        #[kani::unwind(4)]
        #[kani::stub(std::alloc::alloc, alloc_stub)]
        #[kani::stub(alloc::alloc::dealloc_nonnull, dealloc_stub)]
        #[kani::stub(std::thread::panicking, panicking_stub)]
        fn $name() {
            crate::ghost::arm();
            $body;
            kani::cover!(true, "end of harness reached");
        }
    };
}

fn first_facts<A: Pl, B>(a: Arc<A>, n: usize) {
    let (st, u) = enter::<U1<A, B>>(a, n);
    let u = u.0;
    assert!(u.is_first() && !u.is_second(), "first-variant union does not report First");
    assert!(u.as_second().is_none());
    let b = u.as_first().expect("as_first on a first-variant union");
    assert!(b.get() as *const A as usize == st.data, "borrow does not expose the original value");
    match u.borrow() {
        ArcUnionBorrow::First(x) => assert!(x.get() as *const A as usize == st.data),
        ArcUnionBorrow::Second(_) => assert!(false, "borrow() reports the wrong variant"),
    }
    assert!(ArcUnion::strong_count(&u) == st.c);
    let promoted = b.clone_arc();
    st.alive(st.c + 1);
    assert!(promoted.heap_ptr() as usize == st.block);
    forget(promoted);
    st.covers();
    forget(u);
}
fn second_facts<A, B: Pl>(b: Arc<B>, n: usize) {
    let (st, u) = enter::<U2<B, A>>(b, n);
    let u = u.0;
    assert!(u.is_second() && !u.is_first(), "second-variant union does not report Second");
    assert!(u.as_first().is_none());
    let bo = u.as_second().expect("as_second on a second-variant union");
    assert!(bo.get() as *const B as usize == st.data, "borrow does not expose the original value (tag not stripped?)");
    match u.borrow() {
        ArcUnionBorrow::Second(x) => assert!(x.get() as *const B as usize == st.data),
        ArcUnionBorrow::First(_) => assert!(false, "borrow() reports the wrong variant"),
    }
    assert!(ArcUnion::strong_count(&u) == st.c);
    let promoted = bo.clone_arc();
    st.alive(st.c + 1);
    assert!(promoted.heap_ptr() as usize == st.block);
    forget(promoted);
    st.covers();
    forget(u);
}

macro_rules! pair {
    ($f1:ident, $f2:ident, $c1:ident, $d1:ident, $c2:ident, $d2:ident, $a:ty, $b:ty, $mka:expr, $mkb:expr, $na:expr, $nb:expr) => {
        h!($f1, first_facts::<$a, $b>(Arc::new($mka), $na));
        h!($f2, second_facts::<$a, $b>(Arc::new($mkb), $nb));
        h!($c1, step_clone::<U1<$a, $b>>(Arc::new($mka), $na));
        h!($d1, step_drop::<U1<$a, $b>>(Arc::new($mka), $na));
        h!($c2, step_clone::<U2<$b, $a>>(Arc::new($mkb), $nb));
        h!($d2, step_drop::<U2<$b, $a>>(Arc::new($mkb), $nb));
    };
}
fn bytes<const N: usize>() -> [u8; N] {
    let mut b = [0x5au8; N];
    if N > 0 {
        b[0] = kani::any();
        b[N - 1] = kani::any();
    }
    b
}
pair!(q_first_dt_a32, q_second_dt_a32, q_clone1_dt_a32, q_drop1_dt_a32, q_clone2_dt_a32, q_drop2_dt_a32,
      Dt, S33a32, Dt::new(0, kani::any()), S33a32(bytes()), 1, 0);
pair!(r0_first_a32_dt, r0_second_a32_dt, r0_clone1_a32_dt, r0_drop1_a32_dt, r0_clone2_a32_dt, r0_drop2_a32_dt,
      S33a32, Dt, S33a32(bytes()), Dt::new(0, kani::any()), 0, 1);
pair!(q_first_u8_u8, q_second_u8_u8, r1_clone1_u8_u8, q_drop1_u8_u8, r1_clone2_u8_u8, q_drop2_u8_u8,
      u8, u8, kani::any(), kani::any(), 0, 0);
pair!(r1_first_zst_u64, q_second_zst_u64, r1_clone1_zst_u64, r1_drop1_zst_u64, r1_clone2_zst_u64, r1_drop2_zst_u64,
      Zst, u64, Zst, kani::any(), 0, 0);
pair!(r2_first_u64_zst, q_second_u64_zst, r2_clone1_u64_zst, r2_drop1_u64_zst, r2_clone2_u64_zst, q_drop2_u64_zst,
      u64, Zst, kani::any(), Zst, 0, 0);
pair!(r2_first_dt_dt, r2_second_dt_dt, t_clone1_dt_dt, t_drop1_dt_dt, r2_clone2_dt_dt, r2_drop2_dt_dt,
      Dt, Dt, Dt::new(0, kani::any()), Dt::new(0, kani::any()), 1, 1);
pair!(t_first_s1a1_s5a16, t_second_s1a1_s5a16, t_clone1_s1a1_s5a16, t_drop1_s1a1_s5a16, t_clone2_s1a1_s5a16, t_drop2_s1a1_s5a16,
      S1a1, S5a16, S1a1(bytes()), S5a16(bytes()), 0, 0);
pair!(t_first_s1a64_s3a1, t_second_s1a64_s3a1, t_clone1_s1a64_s3a1, t_drop1_s1a64_s3a1, t_clone2_s1a64_s3a1, t_drop2_s1a64_s3a1,
      S1a64, S3a1, S1a64(bytes()), S3a1(bytes()), 0, 0);

#[kani::proof]
fn q_union_size() {
    crate::ghost::arm();
    assert!(size_of::<ArcUnion<u8, u64>>() == size_of::<usize>());
    assert!(size_of::<Option<ArcUnion<u8, u64>>>() == size_of::<usize>());
    assert!(size_of::<ArcUnion<Zst, S33a32>>() == size_of::<usize>());
    assert!(size_of::<Option<ArcUnion<Dt, Dt>>>() == size_of::<usize>());
    kani::cover!(true, "reached");
}

// unions holding different variants never compare equal - not even for equal values of equal
// types, nor for the same allocation
h!(q_different_variants_never_equal, {
    let x: u8 = kani::any();
    let y: u8 = kani::any();
    let a = Arc::new(x);
    let same_alloc: bool = kani::any();
    let b = if same_alloc { a.clone() } else { Arc::new(y) };
    let u = ArcUnion::<u8, u8>::from_first(a);
    let v = ArcUnion::<u8, u8>::from_second(b);
    assert!(!(u == v), "unions of different variants compared equal");
    assert!(!(v == u));
    assert!(u != v);
    assert!(!ArcUnion::ptr_eq(&u, &v), "ptr_eq ignores the variant");
    kani::cover!(same_alloc && x == y);
    kani::cover!(!same_alloc && x == y);
});
