//! C05 — each block fits its contents and is freed once with the layout it was requested with.
//!
//! BOUNDS: shape matrix (size, align) of sized payloads: (1,1) (3,1) (4,2)* (8,4)* (8,8) (12,4)
//!   (16,16)* (24,8) (64,32)* (64,64)* (32,16)* ZST ZST-align-16 (* = size rounded up by repr(C)
//!   from 3,5,5,33,1,17 bytes); header x element pairs for slices from the same families; slice
//!   lengths 0..=3 enumerated (concrete per harness), contents symbolic. Every constructor is
//!   paired with release paths: drop as Arc / OffsetArc / ArcUnion / ThinArc / UniqueArc, after
//!   from_raw, after raw cast to dyn, after header erasure both ways, after assume_init, via
//!   try_unwrap and into_inner.
//! BOUNDS: layout-only harnesses: the slice length is a FULLY SYMBOLIC 64-bit value; the
//!   allocator is stubbed to fail, so only the requested (size, align) is decided - against a
//!   reference computed in u128 - for every length; the other outcome must be the library's panic.
//! ASSUME: std::alloc::alloc / alloc::alloc::dealloc_nonnull replaced by logging stubs (the
//!   dealloc stub asserts size and align against the log); CBMC objects are maximally aligned, so
//!   alignment is checked as requested-align >= needed and (payload offset % align) == 0.
//! OUTSIDE: dyn handles over payloads aligned above 8 (Kani mis-places a dyn tail there; C11 header); shapes not in the matrix; lengths above 3 end to end (covered by layout-only only);
//!   layouts handed to dealloc on UNWINDING paths (Kani does not follow unwind edges, and the MIR interpreter of the
//!   unwinding engine is generic over H and T, so it has no Layout values; seeded change C05-15, DESIGN 10.15).
use crate::ghost::*;
use crate::kinds::*;
use core::mem::{align_of, forget, size_of, ManuallyDrop, MaybeUninit};
use triomphe::*;

fn up(x: u128, a: u128) -> u128 {
    (x + a - 1) / a * a
}
/// repr(C) reference layout of { count: usize, header: H, slice: [T; len] } in u128
fn reference(hsz: usize, hal: usize, esz: usize, eal: usize, len: u128) -> (u128, usize, u128, u128) {
    // ArcInner { count: usize, data: HeaderSlice { header: H, slice: [T] } }, both repr(C):
    // the nested struct is aligned to max(align H, align T) and starts after the count
    let dal = core::cmp::max(hal, eal);
    let al = core::cmp::max(8, dal);
    let off_h = up(8, dal as u128);
    let off_s = off_h + up(hsz as u128, eal as u128);
    let size = up(off_s + esz as u128 * len, al as u128);
    (size, al, off_h, off_s)
}

fn check_sized<T>(a: &Arc<T>, idx: usize) {
    let (size, al, off, _) = reference(size_of::<T>(), align_of::<T>(), 0, 1, 0);
    let b = block_nr(idx);
    assert!(b.live && b.addr == a.heap_ptr() as usize, "heap_ptr is not the block obtained from the allocator");
    assert!(b.size as u128 == size, "requested size differs from the repr(C) size of count+payload");
    assert!(b.align == al, "requested alignment differs from max(align(count), align(payload))");
    let d = Arc::as_ptr(a) as usize;
    assert!((d - b.addr) as u128 == off, "payload is not at its repr(C) offset");
    assert!(&**a as *const T as usize == d);
    assert!((d - b.addr) % align_of::<T>() == 0 && b.align >= align_of::<T>(), "payload address is not aligned for its type");
    assert!(d - b.addr + size_of::<T>() <= b.size, "payload does not fit in the block");
}

fn all_freed(expect_deallocs: usize) {
    assert!(n_live() == 0, "a block was not returned to the allocator");
    assert!(ndealloc() == expect_deallocs, "number of deallocations is off");
}

/// constructors x release paths for one sized shape (part A)
fn sized_a<T: Copy + Tr + 'static>(v: T) {
    // Arc::new -> OffsetArc -> drop
    let a = Arc::new(v);
    check_sized(&a, 0);
    drop(Arc::into_raw_offset(a));
    all_freed(1);
    // UniqueArc::new_uninit -> write -> assume_init -> shareable -> into_raw/from_raw -> try_unwrap
    let mut u = UniqueArc::<T>::new_uninit();
    u.write(v);
    let a = unsafe { UniqueArc::assume_init(u) }.shareable();
    check_sized(&a, 1);
    let a = unsafe { Arc::from_raw(Arc::into_raw(a)) };
    check_sized(&a, 1);
    // arc-swap's RefCnt glue hands the same block back
    let a = unsafe { <Arc<T> as arc_swap::RefCnt>::from_ptr(<Arc<T> as arc_swap::RefCnt>::into_ptr(a)) };
    check_sized(&a, 1);
    assert!(Arc::try_unwrap(a).is_ok());
    all_freed(2);
    // Arc::new -> raw cast to dyn -> drop as Arc<dyn Tr>
    let a = Arc::new(v);
    check_sized(&a, 2);
    // (not for payloads aligned above the count word: Kani 0.68 mis-places the payload of an ArcInner<dyn _> there)
    if align_of::<T>() <= 8 {
        let d: Arc<dyn Tr> = unsafe { Arc::from_raw(Arc::into_raw(a) as *const dyn Tr) };
        assert!(d.heap_ptr() as usize == block_nr(2).addr);
        drop(d);
    } else {
        drop(a);
    }
    all_freed(3);
}
/// part B
fn sized_b<T: Copy + Tr + 'static>(v: T) {
    // From<Box<T>> -> ArcUnion (second arm) -> clone -> drop both
    let boxed = size_of::<T>() != 0;
    let a: Arc<T> = Arc::from(Box::new(v));
    let i = if boxed { 1 } else { 0 };
    check_sized(&a, i);
    assert!(n_live() == 1, "the Box's own storage must be released by From<Box<T>>");
    let u = ArcUnion::<Oth, T>::from_second(a);
    let u2 = u.clone();
    drop(u);
    assert!(n_live() == 1);
    drop(u2);
    all_freed(i + 1);
    // UniqueArc::new -> into_inner
    let u = UniqueArc::new(v);
    let _ = UniqueArc::into_inner(u);
    all_freed(i + 2);
    // UniqueArc::new([v]) -> unsize to a slice (unsize crate) -> shareable -> drop: one block, released once, as requested
    let u = UniqueArc::new([v]);
    let us: UniqueArc<[T]> = unsize::CoerceUnsize::unsize(u, unsize::Coercion::to_slice());
    assert!(us.len() == 1 && n_live() == 1);
    drop(us.shareable());
    all_freed(i + 3);
    // Arc::new_uninit -> assume_init -> unsize coercion to dyn (unsize crate) -> drop
    let mut a = Arc::<MaybeUninit<T>>::new_uninit();
    unsafe { (a.as_mut_ptr() as *mut T).write(v) };
    let a = unsafe { a.assume_init() };
    check_sized(&a, i + 3);
    if align_of::<T>() <= 8 {
        let d: Arc<dyn Tr> = unsize::CoerceUnsize::unsize(a, unsafe { unsize::Coercion::new({
            fn c<'a, T: Tr + 'a>(p: *const T) -> *const (dyn Tr + 'a) { p }
            c::<T>
        }) });
        drop(d);
    } else {
        drop(a);
    }
    all_freed(i + 4);
}

macro_rules! sized {
    ($a:ident, $b:ident, $t:ty, $mk:expr) => {
        #[kani::proof]
        #[kani::unwind(3)]
        #[kani::stub(std::alloc::alloc, alloc_stub)]
        #[kani::stub(alloc::alloc::dealloc_nonnull, dealloc_stub)]
        fn $a() {
            crate::ghost::arm();
            sized_a::<$t>($mk);
            kani::cover!(true, "end of harness reached");
        }
        #[kani::proof]
        #[kani::unwind(3)]
        #[kani::stub(std::alloc::alloc, alloc_stub)]
        #[kani::stub(alloc::alloc::dealloc_nonnull, dealloc_stub)]
        fn $b() {
            crate::ghost::arm();
            sized_b::<$t>($mk);
            kani::cover!(true, "end of harness reached");
        }
    };
}
impl Tr for Zst {
    fn v(&self) -> u8 {
        0
    }
}
impl Tr for Zst16 {
    fn v(&self) -> u8 {
        0
    }
}
fn bytes<const N: usize>() -> [u8; N] {
    // first and last byte symbolic, rest fixed: contents are irrelevant to layout
    let mut b = [0x5au8; N];
    if N > 0 {
        b[0] = kani::any();
        b[N - 1] = kani::any();
    }
    b
}
sized!(q_sized_a_s1a1, q_sized_b_s1a1, S1a1, S1a1(bytes()));
sized!(r0_sized_a_s3a1, r0_sized_b_s3a1, S3a1, S3a1(bytes()));
sized!(q_sized_a_s3a2, r1_sized_b_s3a2, S3a2, S3a2(bytes()));
sized!(r1_sized_a_s5a4, q_sized_b_s5a4, S5a4, S5a4(bytes()));
sized!(r2_sized_a_s8a8, r2_sized_b_s8a8, S8a8, S8a8(bytes()));
sized!(t_sized_a_s12a4, t_sized_b_s12a4, S12a4, S12a4(bytes()));
sized!(q_sized_a_s5a16, q_sized_b_s5a16, S5a16, S5a16(bytes()));
sized!(t_sized_a_s24a8, t_sized_b_s24a8, S24a8, S24a8(bytes()));
sized!(q_sized_a_s33a32, r0_sized_b_s33a32, S33a32, S33a32(bytes()));
sized!(r1_sized_a_s1a64, q_sized_b_s1a64, S1a64, S1a64(bytes()));
sized!(r2_sized_a_s17a16, r0_sized_b_s17a16, S17a16, S17a16(bytes()));
sized!(q_sized_a_zst, q_sized_b_zst, Zst, Zst);
sized!(r0_sized_a_zst16, r1_sized_b_zst16, Zst16, Zst16);

// ------------------------------------------------------------------ header + slice shapes
fn check_hs<H, T>(a: &Arc<HeaderSlice<H, [T]>>, idx: usize, len: usize) {
    let (size, al, off_h, off_s) = reference(size_of::<H>(), align_of::<H>(), size_of::<T>(), align_of::<T>(), len as u128);
    let b = block_nr(idx);
    assert!(b.live && b.addr == a.heap_ptr() as usize, "heap_ptr is not the block obtained from the allocator");
    assert!(b.size as u128 == size, "requested size differs from the repr(C) size of count+header+slice");
    assert!(b.align == al, "requested alignment differs from max(align(count), align(header), align(element))");
    assert!(a.slice.len() == len);
    let h = &a.header as *const H as usize;
    let s = a.slice.as_ptr() as usize;
    assert!((h - b.addr) as u128 == off_h, "header is not at its repr(C) offset");
    assert!((s - b.addr) as u128 == off_s, "slice is not at its repr(C) offset");
    assert!((s - b.addr) % align_of::<T>() == 0 && (h - b.addr) % align_of::<H>() == 0);
    assert!(s - b.addr + len * size_of::<T>() <= b.size, "slice does not fit in the block");
}

/// part A: fat constructors, thin conversion, vec
fn hs_a<H: Copy + Pl, T: Copy + Pl, const N: usize>(h: H, vals: [T; N]) {
    let a = Arc::from_header_and_slice(h, &vals[..]);
    check_hs(&a, 0, N);
    assert!(a.header.sig() == h.sig() && (N == 0 || (a.slice[0].sig() == vals[0].sig() && a.slice[N - 1].sig() == vals[N - 1].sig())));
    drop(a);
    all_freed(1);
    // iter -> thin -> clone -> drop thin (not last) -> fat -> thin clone -> drop fat (not last) -> drop thin (last)
    // (0..N).map(..) rather than vals.iter(): the length of an EMPTY slice iterator is pointer arithmetic on a
    // dangling pointer, which CBMC leaves symbolic - and a symbolic length means a symbolic-size allocation
    let a = Arc::from_header_and_iter(HeaderWithLength::new(h, N), (0..N).map(|i| vals[i]));
    {
        let (size, al, _, off_s) = reference(size_of::<HeaderWithLength<H>>(), align_of::<HeaderWithLength<H>>(), size_of::<T>(), align_of::<T>(), N as u128);
        let b = block_nr(1);
        assert!(b.size as u128 == size && b.align == al, "thin-capable block: wrong size or alignment");
        assert!((a.slice.as_ptr() as usize - b.addr) as u128 == off_s);
    }
    let t = Arc::into_thin(a);
    let t2 = t.clone();
    assert!(t.heap_ptr() as usize == block_nr(1).addr);
    assert!(t.slice.len() == N && t.header.header.sig() == h.sig());
    drop(t);
    assert!(n_live() == 1);
    // back to fat, one more thin clone; the fat handle goes first so that the LAST owner is a ThinArc: the block
    // must then be released with the layout of the whole header+slice, not of the thin (length-less) view
    let f = Arc::from_thin(t2);
    let t3 = Arc::into_thin(f.clone());
    drop(f);
    assert!(n_live() == 1);
    drop(t3);
    all_freed(2);
    // vec (capacity slack 1): the Vec's buffer is released with its own layout, the Arc's with its own
    let mut v = Vec::with_capacity(N + 1);
    for x in vals.iter() {
        v.push(*x);
    }
    let a = Arc::from_header_and_vec(h, v);
    check_hs(&a, 3, N);
    assert!(n_live() == 1, "the Vec's buffer must be released by from_header_and_vec");
    assert!(N == 0 || a.slice[N - 1].sig() == vals[N - 1].sig());
    drop(a);
    all_freed(4);
}
/// part B: uninit construction, header erasure both ways, raw slice round trip
fn hs_b<H: Copy + Pl, T: Copy + Pl, const N: usize>(h: H, vals: [T; N]) {
    let mut u = UniqueArc::<HeaderSlice<H, [MaybeUninit<T>]>>::from_header_and_uninit_slice(h, N);
    for i in 0..N {
        u.slice[i].write(vals[i]);
    }
    let a = unsafe { u.assume_init_slice_with_header() }.shareable();
    check_hs(&a, 0, N);
    drop(a);
    all_freed(1);
    // Arc<[T]> from &[T] (header erased), raw round trip, back to HeaderSlice<(), [T]>, drop
    let a: Arc<[T]> = Arc::from(&vals[..]);
    {
        let (size, al, _, off_s) = reference(0, 1, size_of::<T>(), align_of::<T>(), N as u128);
        let b = block_nr(1);
        assert!(b.size as u128 == size && b.align == al, "Arc<[T]>: wrong size or alignment");
        assert!(((&*a).as_ptr() as usize - b.addr) as u128 == off_s);
    }
    let a = unsafe { Arc::from_raw_slice(Arc::into_raw(a)) };
    assert!(a.len() == N && a.heap_ptr() as usize == block_nr(1).addr);
    let e: Arc<HeaderSlice<(), [T]>> = a.into();
    check_hs(&e, 1, N);
    let a: Arc<[T]> = e.into();
    drop(a);
    all_freed(2);
    // new_uninit_slice -> assume_init -> drop
    let mut a = Arc::<[MaybeUninit<T>]>::new_uninit_slice(N);
    {
        let m = Arc::get_mut(&mut a).unwrap();
        for i in 0..N {
            m[i].write(vals[i]);
        }
    }
    let a = unsafe { a.assume_init() };
    assert!(a.heap_ptr() as usize == block_nr(2).addr && a.len() == N);
    drop(a);
    all_freed(3);
}
macro_rules! hs {
    ($a:ident, $b:ident, $h:ty, $t:ty, $n:expr, $hv:expr, $tv:expr) => {
        #[kani::proof]
        #[kani::unwind(6)]
        #[kani::stub(std::alloc::alloc, alloc_stub)]
        #[kani::stub(alloc::alloc::dealloc_nonnull, dealloc_stub)]
        fn $a() {
            crate::ghost::arm();
            hs_a::<$h, $t, $n>($hv, [$tv; $n]);
            kani::cover!(true, "end of harness reached");
        }
        #[kani::proof]
        #[kani::unwind(6)]
        #[kani::stub(std::alloc::alloc, alloc_stub)]
        #[kani::stub(alloc::alloc::dealloc_nonnull, dealloc_stub)]
        fn $b() {
            crate::ghost::arm();
            hs_b::<$h, $t, $n>($hv, [$tv; $n]);
            kani::cover!(true, "end of harness reached");
        }
    };
}
hs!(q_hs_a_u8_u32_n2, q_hs_b_u8_u32_n2, u8, u32, 2, kani::any(), kani::any());
hs!(q_hs_a_u8_u32_n0, r0_hs_b_u8_u32_n0, u8, u32, 0, kani::any(), kani::any());
hs!(r0_hs_a_u32_u64_n1, q_hs_b_u32_u64_n1, u32, u64, 1, kani::any(), kani::any());
hs!(q_hs_a_s3a1_s5a16_n2, r1_hs_b_s3a1_s5a16_n2, S3a1, S5a16, 2, S3a1(bytes()), S5a16(bytes()));
hs!(r1_hs_a_s33a32_u8_n3, q_hs_b_s33a32_u8_n3, S33a32, u8, 3, S33a32(bytes()), kani::any());
hs!(r2_hs_a_unit_s3a2_n3, r2_hs_b_unit_s3a2_n3, (), S3a2, 3, (), S3a2(bytes()));
hs!(t_hs_a_u16_s12a4_n1, t_hs_b_u16_s12a4_n1, u16, S12a4, 1, kani::any(), S12a4(bytes()));
hs!(q_hs_a_zst16_u8_n2, t_hs_b_zst16_u8_n2, Zst16, u8, 2, Zst16, kani::any());
hs!(t_hs_a_s1a64_s17a16_n1, t_hs_b_s1a64_s17a16_n1, S1a64, S17a16, 1, S1a64(bytes()), S17a16(bytes()));
hs!(t_hs_a_u8_u32_n3, t_hs_b_u8_u32_n3, u8, u32, 3, kani::any(), kani::any());
hs!(t_hs_a_u64_u8_n0, t_hs_b_u64_u8_n0, u64, u8, 0, kani::any(), kani::any());
// empty slice whose element type is the most aligned thing in the block
hs!(q_hs_a_u8_s5a16_n0, r0_hs_b_u8_s5a16_n0, u8, S5a16, 0, kani::any(), S5a16(bytes()));
hs!(r1_hs_a_unit_s33a32_n0, q_hs_b_unit_s33a32_n0, (), S33a32, 0, (), S33a32(bytes()));

// str / String / collect paths
#[kani::proof]
#[kani::unwind(6)]
#[kani::stub(std::alloc::alloc, alloc_stub)]
#[kani::stub(alloc::alloc::dealloc_nonnull, dealloc_stub)]
fn q_str_and_collect() {
    crate::ghost::arm();
    let a: Arc<str> = Arc::from("abc");
    let b = block_nr(0);
    assert!(b.size == 16 && b.align == 8 && a.len() == 3);
    assert!((&*a).as_ptr() as usize - b.addr == 8);
    drop(a);
    all_freed(1);
    let hs = Arc::from_header_and_str(7u32, "hello");
    let b = block_nr(1);
    assert!(b.size == 24 && b.align == 8, "u32 header + 5 bytes of str: 8+4+5 rounded up to 24");
    assert!(hs.slice.as_ptr() as usize - b.addr == 12);
    drop(hs);
    all_freed(2);
    // exact-size iterator path
    let x: u16 = kani::any();
    let a: Arc<[u16]> = [x, 2, 3].iter().copied().collect();
    let b = block_nr(2);
    assert!(b.size == 16 && b.align == 8 && a[0] == x && a.len() == 3);
    drop(a);
    all_freed(3);
}
#[kani::proof]
#[kani::unwind(6)]
#[kani::stub(std::alloc::alloc, alloc_stub)]
#[kani::stub(alloc::alloc::dealloc_nonnull, dealloc_stub)]
fn q_default_and_unsize_slice() {
    crate::ghost::arm();
    let a: Arc<u32> = Default::default();
    check_sized(&a, 0);
    drop(a);
    // sized array -> slice through the unsize crate's coercion
    let x: u16 = kani::any();
    let a = Arc::new([x, 5u16, 6u16]);
    check_sized(&a, 1);
    let s: Arc<[u16]> = unsize::CoerceUnsize::unsize(a, unsize::Coercion::to_slice());
    assert!(s.len() == 3 && s[0] == x && s.heap_ptr() as usize == block_nr(1).addr);
    drop(s);
    all_freed(2);
}

// ------------------------------------------------------------------ layout only, all lengths
fn layout_only<H, T>(call: impl FnOnce(usize)) {
    let len: usize = kani::any();
    unsafe { FAIL_ALLOC_AT = 0 };
    // reference in u128: no wrap-around possible
    let (size, al, _, _) = reference(size_of::<H>(), align_of::<H>(), size_of::<T>(), align_of::<T>(), len as u128);
    unsafe {
        EXPECT_SIZE = size;
        EXPECT_ALIGN = al;
    }
    call(len);
    assert!(false, "constructor returned although the allocator reported failure");
}
pub static mut EXPECT_SIZE: u128 = 0;
pub static mut EXPECT_ALIGN: usize = 0;
/// `handle_alloc_error` stub for the layout-only harnesses: by the time it is reached exactly one
/// request was made, and it must be the reference layout; sizes beyond isize::MAX must never
/// have been requested.
pub fn hae_check_stub(_l: core::alloc::Layout) -> ! {
    unsafe {
        assert!(NALLOC == 1);
        let b = LOG[0];
        assert!(b.size as u128 == EXPECT_SIZE, "requested size differs from the u128 reference (short block)");
        assert!(b.align == EXPECT_ALIGN, "requested alignment differs from the reference");
        assert!(EXPECT_SIZE <= isize::MAX as u128, "a size above isize::MAX reached the allocator");
        kani::cover!(EXPECT_SIZE > 1 << 40, "huge but representable request reached the allocator");
        kani::cover!(EXPECT_SIZE < 512, "small request");
    }
    kani::assume(false);
    loop {}
}
macro_rules! lo {
    ($name:ident, $h:ty, $t:ty, $hv:expr) => {
        #[kani::proof]
        #[kani::unwind(3)]
        #[kani::stub(std::alloc::alloc, alloc_stub)]
        #[kani::stub(alloc::alloc::dealloc_nonnull, dealloc_stub)]
        #[kani::stub(std::alloc::handle_alloc_error, hae_check_stub)]
        fn $name() {
            crate::ghost::arm();
            layout_only::<$h, $t>(|len| {
                let u = UniqueArc::<HeaderSlice<$h, [MaybeUninit<$t>]>>::from_header_and_uninit_slice($hv, len);
                forget(u);
            })
        }
    };
}
lo!(qp_layout_only_u8_u32, u8, u32, 1u8);
lo!(qp_layout_only_s5a16_s12a4, S5a16, S12a4, S5a16([0; 5]));
lo!(qp_layout_only_unit_u8, (), u8, ());
lo!(qp_layout_only_u8_s5a16, u8, S5a16, 3u8);
lo!(r0p_layout_only_s33a32_u64, S33a32, u64, S33a32([0; 33]));
lo!(r1p_layout_only_hwl_s3a2, HeaderWithLength<u16>, S3a2, HeaderWithLength::new(1u16, 0));
lo!(r2p_layout_only_u64_s17a16, u64, S17a16, 0u64);
#[kani::proof]
#[kani::unwind(3)]
#[kani::stub(std::alloc::alloc, alloc_stub)]
#[kani::stub(alloc::alloc::dealloc_nonnull, dealloc_stub)]
#[kani::stub(std::alloc::handle_alloc_error, hae_check_stub)]
fn qp_layout_only_new_uninit_slice() {
    crate::ghost::arm();
    layout_only::<(), u64>(|len| {
        let a = Arc::<[MaybeUninit<u64>]>::new_uninit_slice(len);
        forget(a);
    })
}
