//! Handle kinds behind one trait, payload builders, and the inductive step functions of
//! DESIGN.md section 4.1.  Everything here goes through triomphe's public API (plus the
//! count-word hook used by `set_count`).
use crate::ghost::*;
use core::mem::{forget, ManuallyDrop};
use core::ptr;
use triomphe::*;

pub const MAXC: usize = isize::MAX as usize - 2;

// ------------------------------------------------------------------ payload digest
pub trait Pl {
    /// digest of the visible contents (order-sensitive)
    fn sig(&self) -> u32;
}
impl Pl for Dt {
    fn sig(&self) -> u32 {
        self.v as u32
    }
}
impl Pl for u8 {
    fn sig(&self) -> u32 {
        *self as u32
    }
}
impl Pl for u16 {
    fn sig(&self) -> u32 {
        *self as u32
    }
}
impl Pl for u32 {
    fn sig(&self) -> u32 {
        *self
    }
}
impl Pl for u64 {
    fn sig(&self) -> u32 {
        (*self as u32) ^ ((*self >> 32) as u32)
    }
}
impl Pl for () {
    fn sig(&self) -> u32 {
        0
    }
}
impl Pl for S33a32 {
    fn sig(&self) -> u32 {
        self.0[0] as u32 | (self.0[32] as u32) << 8
    }
}
impl Pl for S5a16 {
    fn sig(&self) -> u32 {
        self.0[0] as u32 | (self.0[4] as u32) << 8
    }
}
impl Pl for S3a2 {
    fn sig(&self) -> u32 {
        self.0[0] as u32 | (self.0[2] as u32) << 8
    }
}
macro_rules! pl_shape {
    ($($t:ident $last:expr),*) => {$(
        impl Pl for $t {
            fn sig(&self) -> u32 {
                self.0[0] as u32 | (self.0[$last] as u32) << 8
            }
        }
    )*};
}
pl_shape!(S1a1 0, S3a1 2, S5a4 4, S8a8 7, S12a4 11, S24a8 23, S1a64 0, S17a16 16);
impl Pl for Zst {
    fn sig(&self) -> u32 {
        0
    }
}
impl Pl for Zst16 {
    fn sig(&self) -> u32 {
        0
    }
}
impl<T: Pl> Pl for [T] {
    fn sig(&self) -> u32 {
        let mut s = self.len() as u32;
        for x in self.iter() {
            s = s.wrapping_mul(31).wrapping_add(x.sig());
        }
        s
    }
}
impl Pl for str {
    fn sig(&self) -> u32 {
        self.as_bytes().sig()
    }
}
impl Pl for dyn Tr {
    fn sig(&self) -> u32 {
        self.v() as u32
    }
}
impl<H: Pl, T: Pl + ?Sized> Pl for HeaderSlice<H, T> {
    fn sig(&self) -> u32 {
        self.header.sig().wrapping_mul(1009).wrapping_add(self.slice.sig())
    }
}
impl<H: Pl> Pl for HeaderWithLength<H> {
    fn sig(&self) -> u32 {
        self.header.sig().wrapping_mul(7).wrapping_add(self.length as u32)
    }
}
impl<T: Pl> Pl for core::mem::MaybeUninit<T> {
    fn sig(&self) -> u32 {
        0
    }
}

// ------------------------------------------------------------------ payload builders
pub type HS<H, T> = HeaderSlice<HeaderWithLength<H>, [T]>;

pub fn mk_dt() -> (Arc<Dt>, usize) {
    (Arc::new(Dt::new(0, kani::any())), 1)
}
pub fn mk_u64() -> (Arc<u64>, usize) {
    (Arc::new(kani::any()), 0)
}
pub fn mk_a32() -> (Arc<S33a32>, usize) {
    (Arc::new(S33a32(kani::any())), 0)
}
/// header-with-length + slice of Drop-tracked elements, symbolic length 0..=L
pub fn mk_hs<const L: usize>() -> (Arc<HS<Dt, Dt>>, usize) {
    let len: usize = kani::any();
    kani::assume(len <= L);
    let vals: [u8; L] = kani::any();
    let hdr = HeaderWithLength::new(Dt::new(0, kani::any()), len);
    let a = Arc::from_header_and_iter(hdr, (0..len).map(|i| Dt::new(1 + i as u8, vals[i])));
    kani::cover!(len == 0, "empty slice reached");
    kani::cover!(len == L, "maximal slice reached");
    (a, 1 + len)
}
pub fn mk_hs_u16<const L: usize>() -> (Arc<HS<u8, u16>>, usize) {
    let len: usize = kani::any();
    kani::assume(len <= L);
    let vals: [u16; L] = kani::any();
    let hdr = HeaderWithLength::new(kani::any(), len);
    let a = Arc::from_header_and_slice(hdr, &vals[..len]);
    kani::cover!(len == 0, "empty slice reached");
    kani::cover!(len == L, "maximal slice reached");
    (a, 0)
}
pub fn mk_slice<const L: usize>() -> (Arc<[Dt]>, usize) {
    let len: usize = kani::any();
    kani::assume(len <= L);
    let vals: [u8; L] = kani::any();
    let a: Arc<[Dt]> = (0..len).map(|i| Dt::new(i as u8, vals[i])).collect();
    kani::cover!(len == 0, "empty slice reached");
    kani::cover!(len == L, "maximal slice reached");
    (a, len)
}
pub fn mk_str<const L: usize>() -> (Arc<str>, usize) {
    let len: usize = kani::any();
    kani::assume(len <= L);
    let mut b: [u8; L] = kani::any();
    for i in 0..L {
        kani::assume(b[i] < 128);
    }
    let s = core::str::from_utf8(&b[..len]).unwrap();
    kani::cover!(len == L, "maximal str reached");
    (Arc::from(s), 0)
}
pub fn mk_dyn() -> (Arc<dyn Tr>, usize) {
    let a = Arc::new(Dt::new(0, kani::any()));
    let p = Arc::into_raw(a);
    (unsafe { Arc::from_raw(p as *const dyn Tr) }, 1)
}

// ------------------------------------------------------------------ handle kinds
pub trait Kind: Sized {
    type P: ?Sized;
    fn from_arc(a: Arc<Self::P>) -> Self;
    fn into_arc(self) -> Arc<Self::P>;
    fn dup(&self) -> Self;
    /// count through this kind's primary accessor
    fn count(&self) -> usize;
    /// count through every accessor this kind offers; asserts they agree with each other (C04)
    fn count_all(&self) -> usize {
        self.count()
    }
    /// as count_all where that is cheap; the primary accessor for the pointer-tagging kinds
    fn count_light(&self) -> usize {
        self.count_all()
    }
    /// payload address as this kind's own deref / as_ptr reports it
    fn data_addr(&self) -> usize;
    fn release(self) {
        drop(self)
    }
}

fn arc_counts<T: ?Sized>(a: &Arc<T>) -> usize {
    let c = Arc::count(a);
    assert!(Arc::strong_count(a) == c, "Arc::strong_count disagrees with Arc::count");
    c
}

impl<T: ?Sized> Kind for Arc<T> {
    type P = T;
    fn from_arc(a: Arc<T>) -> Self {
        a
    }
    fn into_arc(self) -> Arc<T> {
        self
    }
    fn dup(&self) -> Self {
        self.clone()
    }
    fn count(&self) -> usize {
        Arc::count(self)
    }
    fn count_all(&self) -> usize {
        arc_counts(self)
    }
    fn data_addr(&self) -> usize {
        let p = &**self as *const T as *const u8 as usize;
        assert!(Arc::as_ptr(self) as *const u8 as usize == p, "Arc::as_ptr differs from the Deref address");
        p
    }
}

impl<T> Kind for OffsetArc<T> {
    type P = T;
    fn from_arc(a: Arc<T>) -> Self {
        Arc::into_raw_offset(a)
    }
    fn into_arc(self) -> Arc<T> {
        Arc::from_raw_offset(self)
    }
    fn dup(&self) -> Self {
        self.clone()
    }
    fn count(&self) -> usize {
        OffsetArc::strong_count(self)
    }
    fn count_all(&self) -> usize {
        let c = OffsetArc::strong_count(self);
        assert!(self.with_arc(|a| arc_counts(a)) == c, "count inside OffsetArc::with_arc differs");
        assert!(ArcBorrow::strong_count(&self.borrow_arc()) == c, "ArcBorrow::strong_count differs");
        c
    }
    fn data_addr(&self) -> usize {
        &**self as *const T as usize
    }
}

/// The "other" arm type of the unions used as handle kinds.
pub type Oth = u32;
pub struct U1<T, O = Oth>(pub ArcUnion<T, O>);
pub struct U2<T, O = Oth>(pub ArcUnion<O, T>);
impl<T, O> Kind for U1<T, O> {
    type P = T;
    fn from_arc(a: Arc<T>) -> Self {
        U1(ArcUnion::from_first(a))
    }
    fn into_arc(self) -> Arc<T> {
        // no consuming accessor exists: promote the borrow, then release the union
        let a = self.0.as_first().expect("first variant").clone_arc();
        drop(self.0);
        a
    }
    fn dup(&self) -> Self {
        U1(self.0.clone())
    }
    fn count(&self) -> usize {
        ArcUnion::strong_count(&self.0)
    }
    fn count_all(&self) -> usize {
        let c = ArcUnion::strong_count(&self.0);
        assert!(ArcUnionBorrow::strong_count(&self.0.borrow()) == c);
        assert!(ArcBorrow::strong_count(&self.0.as_first().unwrap()) == c);
        assert!(self.0.is_first() && !self.0.is_second() && self.0.as_second().is_none());
        c
    }
    fn count_light(&self) -> usize {
        self.count()
    }
    fn data_addr(&self) -> usize {
        self.0.as_first().unwrap().get() as *const T as usize
    }
}
impl<T, O> Kind for U2<T, O> {
    type P = T;
    fn from_arc(a: Arc<T>) -> Self {
        U2(ArcUnion::from_second(a))
    }
    fn into_arc(self) -> Arc<T> {
        let a = self.0.as_second().expect("second variant").clone_arc();
        drop(self.0);
        a
    }
    fn dup(&self) -> Self {
        U2(self.0.clone())
    }
    fn count(&self) -> usize {
        ArcUnion::strong_count(&self.0)
    }
    fn count_all(&self) -> usize {
        let c = ArcUnion::strong_count(&self.0);
        assert!(ArcUnionBorrow::strong_count(&self.0.borrow()) == c);
        assert!(ArcBorrow::strong_count(&self.0.as_second().unwrap()) == c);
        assert!(self.0.is_second() && !self.0.is_first() && self.0.as_first().is_none());
        c
    }
    fn count_light(&self) -> usize {
        self.count()
    }
    fn data_addr(&self) -> usize {
        self.0.as_second().unwrap().get() as *const T as usize
    }
}

/// A raw pointer handed out by `Arc::into_raw` and not yet taken back.
pub struct Raw<T: ?Sized>(pub *const T);
impl<T> Kind for Raw<T> {
    type P = T;
    fn from_arc(a: Arc<T>) -> Self {
        Raw(Arc::into_raw(a))
    }
    fn into_arc(self) -> Arc<T> {
        unsafe { Arc::from_raw(self.0) }
    }
    fn dup(&self) -> Self {
        Raw(Arc::into_raw(unsafe { ArcBorrow::from_ptr(self.0) }.clone_arc()))
    }
    fn count(&self) -> usize {
        ArcBorrow::strong_count(&unsafe { ArcBorrow::from_ptr(self.0) })
    }
    fn count_all(&self) -> usize {
        let b = unsafe { ArcBorrow::from_ptr(self.0) };
        let c = ArcBorrow::strong_count(&b);
        assert!(b.with_arc(|a| arc_counts(a)) == c);
        c
    }
    fn data_addr(&self) -> usize {
        self.0 as usize
    }
    fn release(self) {
        drop(self.into_arc())
    }
}
/// Unsized raw pointers (slice / str / dyn): only into_raw / from_raw exist for them.
pub struct RawU<T: ?Sized>(pub *const T);
impl<T: ?Sized> Kind for RawU<T> {
    type P = T;
    fn from_arc(a: Arc<T>) -> Self {
        RawU(Arc::into_raw(a))
    }
    fn into_arc(self) -> Arc<T> {
        unsafe { Arc::from_raw(self.0) }
    }
    fn dup(&self) -> Self {
        let a = ManuallyDrop::new(unsafe { Arc::from_raw(self.0) });
        RawU(Arc::into_raw((*a).clone()))
    }
    fn count(&self) -> usize {
        let a = ManuallyDrop::new(unsafe { Arc::from_raw(self.0) });
        Arc::count(&a)
    }
    fn data_addr(&self) -> usize {
        self.0 as *const u8 as usize
    }
    fn release(self) {
        drop(self.into_arc())
    }
}

impl<H, T> Kind for ThinArc<H, T> {
    type P = HS<H, T>;
    fn from_arc(a: Arc<Self::P>) -> Self {
        Arc::into_thin(a)
    }
    fn into_arc(self) -> Arc<Self::P> {
        Arc::from_thin(self)
    }
    fn dup(&self) -> Self {
        self.clone()
    }
    fn count(&self) -> usize {
        ThinArc::strong_count(self)
    }
    fn count_all(&self) -> usize {
        let c = ThinArc::strong_count(self);
        assert!(self.with_arc(|a| arc_counts(a)) == c, "count inside ThinArc::with_arc differs");
        c
    }
    fn data_addr(&self) -> usize {
        &**self as *const HS<H, T> as *const u8 as usize
    }
}
/// The opaque pointer of `ThinArc::into_raw`.
pub struct RawThin<H, T>(pub *const core::ffi::c_void, core::marker::PhantomData<(H, T)>);
impl<H, T> Kind for RawThin<H, T> {
    type P = HS<H, T>;
    fn from_arc(a: Arc<Self::P>) -> Self {
        RawThin(Arc::into_thin(a).into_raw(), core::marker::PhantomData)
    }
    fn into_arc(self) -> Arc<Self::P> {
        Arc::from_thin(unsafe { ThinArc::from_raw(self.0) })
    }
    fn dup(&self) -> Self {
        let t = ManuallyDrop::new(unsafe { ThinArc::<H, T>::from_raw(self.0) });
        RawThin((*t).clone().into_raw(), core::marker::PhantomData)
    }
    fn count(&self) -> usize {
        let t = ManuallyDrop::new(unsafe { ThinArc::<H, T>::from_raw(self.0) });
        ThinArc::strong_count(&t)
    }
    fn data_addr(&self) -> usize {
        let t = ManuallyDrop::new(unsafe { ThinArc::<H, T>::from_raw(self.0) });
        &**t as *const HS<H, T> as *const u8 as usize
    }
    fn release(self) {
        drop(unsafe { ThinArc::<H, T>::from_raw(self.0) })
    }
}

/// arc-swap's `RefCnt` glue as a handle kind (pointer handed out by `into_ptr`).
pub struct Swp<T>(pub *mut T);
impl<T> Kind for Swp<T> {
    type P = T;
    fn from_arc(a: Arc<T>) -> Self {
        Swp(<Arc<T> as arc_swap::RefCnt>::into_ptr(a))
    }
    fn into_arc(self) -> Arc<T> {
        unsafe { <Arc<T> as arc_swap::RefCnt>::from_ptr(self.0) }
    }
    fn dup(&self) -> Self {
        let a = ManuallyDrop::new(unsafe { <Arc<T> as arc_swap::RefCnt>::from_ptr(self.0) });
        assert!(<Arc<T> as arc_swap::RefCnt>::as_ptr(&a) == self.0);
        Swp(<Arc<T> as arc_swap::RefCnt>::into_ptr((*a).clone()))
    }
    fn count(&self) -> usize {
        let a = ManuallyDrop::new(unsafe { <Arc<T> as arc_swap::RefCnt>::from_ptr(self.0) });
        Arc::count(&a)
    }
    fn data_addr(&self) -> usize {
        self.0 as usize
    }
    fn release(self) {
        drop(self.into_arc())
    }
}

/// arc-swap's `RefCnt` glue for ThinArc as a handle kind.
pub struct SwpThin<H, T>(pub *mut core::ffi::c_void, core::marker::PhantomData<(H, T)>);
impl<H, T> Kind for SwpThin<H, T> {
    type P = HS<H, T>;
    fn from_arc(a: Arc<Self::P>) -> Self {
        SwpThin(<ThinArc<H, T> as arc_swap::RefCnt>::into_ptr(Arc::into_thin(a)), core::marker::PhantomData)
    }
    fn into_arc(self) -> Arc<Self::P> {
        Arc::from_thin(unsafe { <ThinArc<H, T> as arc_swap::RefCnt>::from_ptr(self.0) })
    }
    fn dup(&self) -> Self {
        let t = ManuallyDrop::new(unsafe { <ThinArc<H, T> as arc_swap::RefCnt>::from_ptr(self.0) });
        assert!(<ThinArc<H, T> as arc_swap::RefCnt>::as_ptr(&t) == self.0);
        SwpThin(<ThinArc<H, T> as arc_swap::RefCnt>::into_ptr((*t).clone()), core::marker::PhantomData)
    }
    fn count(&self) -> usize {
        let t = ManuallyDrop::new(unsafe { <ThinArc<H, T> as arc_swap::RefCnt>::from_ptr(self.0) });
        ThinArc::strong_count(&t)
    }
    fn data_addr(&self) -> usize {
        let t = ManuallyDrop::new(unsafe { <ThinArc<H, T> as arc_swap::RefCnt>::from_ptr(self.0) });
        &**t as *const HS<H, T> as *const u8 as usize
    }
    fn release(self) {
        drop(unsafe { <ThinArc<H, T> as arc_swap::RefCnt>::from_ptr(self.0) })
    }
}

// ------------------------------------------------------------------ the inductive state
pub struct St<P: ?Sized> {
    pub w: ManuallyDrop<Arc<P>>,
    pub c: usize,
    pub sig: u32,
    pub n: usize,
    pub live0: usize,
    pub block: usize,
    pub data: usize,
}

/// Put the allocation behind `a` into an arbitrary valid state I(c, v) with one harness-held
/// owning handle of kind K (DESIGN 4.1). `n` = number of ledger ids (0..n) living in the payload.
pub fn enter<K: Kind>(a: Arc<K::P>, n: usize) -> (St<K::P>, K)
where
    K::P: Pl,
{
    assert!(Arc::count(&a) == 1, "constructor must establish count 1");
    enter_shared::<K>(a, n)
}
/// as `enter`, for an allocation that already has other harness-held owners
pub fn enter_shared<K: Kind>(a: Arc<K::P>, n: usize) -> (St<K::P>, K)
where
    K::P: Pl,
{
    let w = ManuallyDrop::new(unsafe { ptr::read(&a) });
    let sig = w.sig();
    let block = a.heap_ptr() as usize;
    let data = Arc::as_ptr(&a) as *const u8 as usize;
    assert!(ledger_zero());
    let h = K::from_arc(a);
    let c: usize = kani::any();
    kani::assume(c >= 1 && c <= MAXC);
    set_count(&w, c);
    (St { w, c, sig, n, live0: n_live(), block, data }, h)
}

impl<P: ?Sized + Pl> St<P> {
    /// block live, payload untouched and readable through the witness, nothing destroyed, count = expect
    pub fn alive(&self, expect: usize) {
        assert!(raw_count(&self.w) == expect, "count word is not what the number of owners requires");
        assert!(Arc::count(&self.w) == expect && Arc::strong_count(&self.w) == expect);
        assert!(block_of(self.block).is_some(), "block was returned to the allocator while owners remain");
        assert!(n_live() == self.live0, "an allocation appeared or vanished");
        assert!(ledger_zero(), "a destructor ran while owners remain");
        assert!(self.w.sig() == self.sig, "payload changed");
        assert!(self.w.heap_ptr() as usize == self.block);
    }
    /// destructor ran exactly once per tracked value, block returned exactly once
    pub fn destroyed(&self) {
        assert!(ledger_is(0, self.n), "payload destructors did not run exactly once each");
        assert!(block_of(self.block).is_none(), "block still live after the last owner went away (leak)");
        assert!(n_live() == self.live0 - 1, "allocation count off after the last release");
    }
    pub fn covers(&self) {
        kani::cover!(self.c == 1, "sole owner");
        kani::cover!(self.c == 2, "two owners");
        kani::cover!(self.c > 1 << 40, "huge count");
    }
}

pub fn step_clone<K: Kind>(a: Arc<K::P>, n: usize)
where
    K::P: Pl,
{
    let (st, h) = enter::<K>(a, n);
    assert!(h.data_addr() == st.data, "handle does not point at the payload");
    let h2 = h.dup();
    st.alive(st.c + 1);
    assert!(h2.count() == st.c + 1, "accessor of the new handle does not report the count");
    assert!(h2.data_addr() == st.data, "the new handle does not point at the same payload");
    st.covers();
    forget(h);
    forget(h2);
}

pub fn step_drop<K: Kind>(a: Arc<K::P>, n: usize)
where
    K::P: Pl,
{
    let (st, h) = enter::<K>(a, n);
    h.release();
    if st.c == 1 {
        st.destroyed();
    } else {
        st.alive(st.c - 1);
    }
    st.covers();
}

/// K -> Arc -> K2 -> Arc: conversions consume the source and leave the count alone.
pub fn step_convert<K: Kind, K2: Kind<P = K::P>>(a: Arc<K::P>, n: usize)
where
    K::P: Pl,
{
    let (st, h) = enter::<K>(a, n);
    let arc = h.into_arc();
    st.alive(st.c);
    assert!(arc.heap_ptr() as usize == st.block);
    let h2 = K2::from_arc(arc);
    st.alive(st.c);
    assert!(h2.count() == st.c);
    assert!(h2.data_addr() == st.data);
    let back = h2.into_arc();
    st.alive(st.c);
    assert!(Arc::ptr_eq(&back, &st.w));
    st.covers();
    forget(back);
}

/// clone then drop both in either order: the count returns to c-1 .. and the last one destroys
pub fn step_clone_drop_drop<K: Kind>(a: Arc<K::P>, n: usize)
where
    K::P: Pl,
{
    step_cdd::<K>(a, n, kani::any())
}
/// same with the release order fixed by the caller (splits the heaviest kinds in two harnesses)
pub fn step_cdd<K: Kind>(a: Arc<K::P>, n: usize, first: bool)
where
    K::P: Pl,
{
    let (st, h) = enter::<K>(a, n);
    let h2 = h.dup();
    if first {
        h.release();
        st.alive(st.c);
        h2.release();
    } else {
        h2.release();
        st.alive(st.c);
        h.release();
    }
    if st.c == 1 {
        st.destroyed();
    } else {
        st.alive(st.c - 1);
    }
    st.covers();
}

// ------------------------------------------------------------------ concrete-length builders
// (a symbolic length makes the block a symbolic-size object in CBMC and the formula explodes;
//  lengths are therefore enumerated by const generic, everything else stays symbolic)
pub fn mk_hs_n<const N: usize>() -> (Arc<HS<Dt, Dt>>, usize) {
    let vals: [u8; N] = kani::any();
    let hdr = HeaderWithLength::new(Dt::new(0, kani::any()), N);
    let a = Arc::from_header_and_iter(hdr, (0..N).map(|i| Dt::new(1 + i as u8, vals[i])));
    (a, 1 + N)
}
pub fn mk_slice_n<const N: usize>() -> (Arc<[Dt]>, usize) {
    let vals: [u8; N] = kani::any();
    let a: Arc<[Dt]> = (0..N).map(|i| Dt::new(i as u8, vals[i])).collect();
    (a, N)
}
pub fn mk_str_n<const N: usize>() -> (Arc<str>, usize) {
    let mut b: [u8; N] = kani::any();
    for i in 0..N {
        kani::assume(b[i] < 128);
    }
    let s = unsafe { core::str::from_utf8_unchecked(&b[..]) };
    (Arc::from(s), 0)
}
pub fn mk_hs_u16_n<const N: usize>() -> (Arc<HS<u8, u16>>, usize) {
    let vals: [u16; N] = kani::any();
    let hdr = HeaderWithLength::new(kani::any(), N);
    (Arc::from_header_and_slice(hdr, &vals[..]), 0)
}
