//! C15 — uninitialised construction never destroys or exposes what was not written.
//!
//! BOUNDS: new_uninit (Arc and UniqueArc), new_uninit_slice(N), from_header_and_uninit_slice(h, N)
//!   with Drop-tracked header and elements, N in 0..=3 (enumerated), a SYMBOLIC subset of slots
//!   written before the handle is dropped; all slots written before assume_init*; deprecated
//!   Arc::write / as_mut_slice under a symbolic count. Also a zero-sized Drop-tracked header.
//! ASSUME: alloc/dealloc logging stubs. Unwritten memory is CBMC's nondeterministic heap, so a
//!   destructor that runs on an unwritten slot sees an arbitrary ledger id and fails for some value.
//! OUTSIDE: lengths above 3.
use crate::ghost::*;
use crate::kinds::*;
use core::mem::{forget, ManuallyDrop, MaybeUninit};
use triomphe::*;

macro_rules! h {
    ($name:ident, $body:expr) => {
        #[kani::proof]
        #[kani::unwind(6)]
        #[kani::stub(std::alloc::alloc, alloc_stub)]
        #[kani::stub(alloc::alloc::dealloc_nonnull, dealloc_stub)]
        fn $name() {
            crate::ghost::arm();
            $body;
            kani::cover!(true, "end of harness reached");
        }
    };
}

h!(q_new_uninit_drop_any_time, {
    let written: bool = kani::any();
    let mut u = UniqueArc::<Dt>::new_uninit();
    assert!(n_live() == 1 && block_nr(0).size == 16 && block_nr(0).align == 8);
    if written {
        let r = u.write(Dt::new(0, kani::any()));
        assert!(r.id == 0);
        assert!(ledger_zero(), "write() destroyed something (the old, never-written contents?)");
    }
    drop(u);
    assert!(ledger_zero(), "an element destructor ran on a handle that was never assumed initialised");
    assert!(n_live() == 0, "block not released");
    kani::cover!(written);
    kani::cover!(!written);
});
h!(q_arc_new_uninit_drop_any_time, {
    let written: bool = kani::any();
    let mut a = Arc::<MaybeUninit<Dt>>::new_uninit();
    if written {
        a.write(Dt::new(0, kani::any()));
        assert!(ledger_zero(), "deprecated write() destroyed something");
    }
    let b = a.clone();
    drop(a);
    drop(b);
    assert!(ledger_zero() && n_live() == 0);
    kani::cover!(written);
});
h!(q_new_uninit_assume_init, {
    let v: u8 = kani::any();
    let mut u = UniqueArc::<Dt>::new_uninit();
    let blk = block_nr(0).addr;
    u.write(Dt::new(0, v));
    let u = unsafe { UniqueArc::assume_init(u) };
    assert!(u.v == v && u.id == 0 && ledger_zero());
    let a = u.shareable();
    assert!(a.heap_ptr() as usize == blk && Arc::count(&a) == 1 && nalloc() == 1, "assume_init must not change the allocation or the count");
    drop(a);
    assert!(ledger_is(0, 1) && n_live() == 0);
});
h!(q_arc_new_uninit_assume_init, {
    let v: u8 = kani::any();
    let mut a = Arc::<MaybeUninit<Dt>>::new_uninit();
    let blk = a.heap_ptr();
    unsafe { (a.as_mut_ptr() as *mut Dt).write(Dt::new(0, v)) };
    let c = a.clone();
    let a = unsafe { a.assume_init() };
    assert!(a.heap_ptr() == blk && Arc::count(&a) == 2 && a.v == v && nalloc() == 1);
    drop(c);
    assert!(ledger_zero());
    drop(a);
    assert!(ledger_is(0, 1) && n_live() == 0);
});

/// from_header_and_uninit_slice: symbolic write mask, then drop without assume_init
fn uninit_hs_drop<const N: usize>() {
    let mask: u8 = kani::any();
    let mut u = UniqueArc::<HeaderSlice<Dt, [MaybeUninit<Dt>]>>::from_header_and_uninit_slice(Dt::new(0, kani::any()), N);
    assert!(u.slice.len() == N && u.header.id == 0 && ledger_zero());
    for i in 0..N {
        if mask & (1 << i) != 0 {
            u.slice[i].write(Dt::new(1 + i as u8, 7));
        }
    }
    assert!(ledger_zero());
    drop(u);
    assert!(ledger_is(0, 1), "before assume_init exactly the header is destroyed (once) and no element is");
    assert!(n_live() == 0);
    kani::cover!(mask & 7 == 0, "nothing written");
    kani::cover!(N == 0 || mask & 1 == 1, "something written");
}
h!(q_uninit_hs_drop_n2, uninit_hs_drop::<2>());
h!(q_uninit_hs_drop_n0, uninit_hs_drop::<0>());
h!(r0_uninit_hs_drop_n1, uninit_hs_drop::<1>());
h!(r1_uninit_hs_drop_n3, uninit_hs_drop::<3>());
h!(t_uninit_hs_drop_n4, uninit_hs_drop::<4>());

fn uninit_hs_init<const N: usize>() {
    let vals: [u8; N] = kani::any();
    let mut u = UniqueArc::<HeaderSlice<Dt, [MaybeUninit<Dt>]>>::from_header_and_uninit_slice(Dt::new(0, kani::any()), N);
    let blk = block_nr(0).addr;
    for i in 0..N {
        u.slice[i].write(Dt::new(1 + i as u8, vals[i]));
    }
    let a = unsafe { u.assume_init_slice_with_header() }.shareable();
    assert!(a.heap_ptr() as usize == blk && Arc::count(&a) == 1 && nalloc() == 1, "assume_init must not change the allocation or the count");
    assert!(a.slice.len() == N && a.header.id == 0);
    for i in 0..N {
        assert!(a.slice[i].id == 1 + i as u8 && a.slice[i].v == vals[i]);
    }
    assert!(ledger_zero());
    drop(a);
    assert!(ledger_is(0, N + 1) && n_live() == 0, "after assume_init every element is destroyed exactly once with the allocation");
}
h!(q_uninit_hs_init_n2, uninit_hs_init::<2>());
h!(r0_uninit_hs_init_n0, uninit_hs_init::<0>());
h!(r2_uninit_hs_init_n3, uninit_hs_init::<3>());
h!(t_uninit_hs_init_n1, uninit_hs_init::<1>());
h!(t_uninit_hs_init_n4, uninit_hs_init::<4>());

fn uninit_slice<const N: usize>(init: bool, via_arc: bool) {
    let mask: u8 = kani::any();
    let mut u = UniqueArc::<[MaybeUninit<Dt>]>::new_uninit_slice(N);
    let blk = block_nr(0).addr;
    assert!(u.len() == N);
    for i in 0..N {
        if init || mask & (1 << i) != 0 {
            u[i].write(Dt::new(i as u8, 3));
        }
    }
    if init {
        let a: Arc<[Dt]> = if via_arc {
            unsafe { u.shareable().assume_init() }
        } else {
            unsafe { UniqueArc::assume_init_slice(u) }.shareable()
        };
        assert!(a.heap_ptr() as usize == blk && a.len() == N && Arc::count(&a) == 1 && nalloc() == 1);
        assert!(ledger_zero());
        drop(a);
        assert!(ledger_is(0, N));
    } else {
        drop(u);
        assert!(ledger_zero(), "an element destructor ran before assume_init");
    }
    assert!(n_live() == 0);
}
h!(q_uninit_slice_drop_n2, uninit_slice::<2>(false, false));
h!(q_uninit_slice_init_n2, uninit_slice::<2>(true, true));
h!(r0_uninit_slice_init_n3_unique, uninit_slice::<3>(true, false));
h!(r1_uninit_slice_drop_n3, uninit_slice::<3>(false, false));
h!(r2_uninit_slice_init_n0, uninit_slice::<0>(true, true));
h!(q_arc_new_uninit_slice_assume_init_shared, {
    let v: u8 = kani::any();
    let mut u = UniqueArc::<[MaybeUninit<Dt>]>::new_uninit_slice(1);
    u[0].write(Dt::new(0, v));
    let a: Arc<[MaybeUninit<Dt>]> = u.shareable();
    let b = a.clone();
    let blk = a.heap_ptr();
    let a = unsafe { a.assume_init() };
    assert!(a.heap_ptr() == blk && Arc::count(&a) == 2 && a[0].v == v, "assume_init of a shared handle must keep allocation, contents and count");
    let b = unsafe { b.assume_init() };
    drop(a);
    assert!(ledger_zero());
    drop(b);
    assert!(ledger_is(0, 1) && n_live() == 0);
});
h!(q_arc_new_uninit_slice_drop, {
    let a = Arc::<[MaybeUninit<Dt>]>::new_uninit_slice(2);
    let b = a.clone();
    drop(a);
    drop(b);
    assert!(ledger_zero() && n_live() == 0);
});

// zero-sized, Drop-tracked header: still destroyed exactly once, and not before the handle goes
static mut ZH_DROPS: u8 = 0;
struct ZHeader;
impl Drop for ZHeader {
    fn drop(&mut self) {
        unsafe { ZH_DROPS += 1 };
    }
}
h!(q_zst_header_once, {
    let u = UniqueArc::<HeaderSlice<ZHeader, [MaybeUninit<u16>]>>::from_header_and_uninit_slice(ZHeader, 2);
    assert!(unsafe { ZH_DROPS } == 0, "zero-sized header destroyed while the handle is alive");
    drop(u);
    assert!(unsafe { ZH_DROPS } == 1, "zero-sized header must be destroyed exactly once");
    assert!(n_live() == 0);
});

// zero-sized elements WITH a destructor through every assume_init path: the initialised handle keeps the
// length (there are no bytes to measure it by) and every written element is destroyed exactly once
static mut ZE_DROPS: usize = 0;
struct ZElem;
impl Drop for ZElem {
    fn drop(&mut self) {
        unsafe { ZE_DROPS += 1 };
    }
}
h!(q_zst_elements_assume_init_with_header, {
    let mut u = UniqueArc::<HeaderSlice<Dt, [MaybeUninit<ZElem>]>>::from_header_and_uninit_slice(Dt::new(0, 7), 3);
    let blk = block_nr(0).addr;
    for i in 0..3 {
        u.slice[i].write(ZElem);
    }
    let a = unsafe { u.assume_init_slice_with_header() };
    assert!(a.slice.len() == 3, "assume_init_slice_with_header changed the length of a zero-sized-element slice");
    assert!(a.header.id == 0 && a.header.v == 7 && unsafe { ZE_DROPS } == 0 && ledger_zero());
    let a = a.shareable();
    assert!(a.heap_ptr() as usize == blk && Arc::count(&a) == 1 && nalloc() == 1);
    drop(a);
    assert!(unsafe { ZE_DROPS } == 3, "each written zero-sized element must be destroyed exactly once");
    assert!(ledger_is(0, 1) && n_live() == 0);
});
h!(q_zst_elements_assume_init_slice, {
    let via_arc: bool = kani::any();
    if via_arc {
        let a = Arc::<[MaybeUninit<ZElem>]>::new_uninit_slice(2);
        let a = unsafe { a.assume_init() };
        assert!(a.len() == 2 && unsafe { ZE_DROPS } == 0);
        drop(a);
    } else {
        let u = UniqueArc::<[MaybeUninit<ZElem>]>::new_uninit_slice(2);
        let u = unsafe { UniqueArc::assume_init_slice(u) };
        assert!(u.len() == 2 && unsafe { ZE_DROPS } == 0);
        drop(u);
    }
    assert!(unsafe { ZE_DROPS } == 2, "each zero-sized element must be destroyed exactly once");
    assert!(n_live() == 0);
});

// ---- deprecated writers under a symbolic count
#[kani::proof]
#[kani::unwind(6)]
#[kani::stub(std::alloc::alloc, alloc_stub)]
#[kani::stub(alloc::alloc::dealloc_nonnull, dealloc_stub)]
fn qp_deprecated_write_any_count() {
    crate::ghost::arm();
    let a: Arc<MaybeUninit<Dt>> = Arc::new_uninit();
    let w = ManuallyDrop::new(unsafe { core::ptr::read(&a) });
    let mut h = a;
    let c: usize = kani::any();
    kani::assume(c >= 1 && c <= MAXC);
    set_count(&w, c);
    let v: u8 = kani::any();
    h.write(Dt::new(0, v));
    assert!(c == 1, "deprecated Arc::write mutated a shared allocation instead of panicking");
    assert!(ledger_zero());
    assert!(unsafe { (*(Arc::as_ptr(&w) as *const Dt)).v } == v);
    kani::cover!(true, "sole owner may write");
    forget(h);
}
#[kani::proof]
#[kani::unwind(6)]
#[kani::stub(std::alloc::alloc, alloc_stub)]
#[kani::stub(alloc::alloc::dealloc_nonnull, dealloc_stub)]
fn qp_deprecated_as_mut_slice_any_count() {
    crate::ghost::arm();
    let a: Arc<[MaybeUninit<u16>]> = Arc::new_uninit_slice(2);
    let w = ManuallyDrop::new(unsafe { core::ptr::read(&a) });
    let mut h = a;
    let c: usize = kani::any();
    kani::assume(c >= 1 && c <= MAXC);
    set_count(&w, c);
    let s = h.as_mut_slice();
    assert!(c == 1, "deprecated as_mut_slice handed out &mut to a shared allocation instead of panicking");
    s[0].write(5);
    kani::cover!(true, "sole owner may write");
    forget(h);
}
#[kani::proof]
#[kani::unwind(6)]
#[kani::stub(std::alloc::alloc, alloc_stub)]
#[kani::stub(alloc::alloc::dealloc_nonnull, dealloc_stub)]
fn qp_deprecated_write_shared_never_returns() {
    crate::ghost::arm();
    let a: Arc<MaybeUninit<u16>> = Arc::new_uninit();
    let other = a.clone();
    let mut h = a;
    kani::cover!(true, "reached the shared write");
    h.write(7);
    assert!(false, "deprecated Arc::write returned on a shared Arc");
}

// the gate must not be short-circuited for an empty slice
#[kani::proof]
#[kani::unwind(6)]
#[kani::stub(std::alloc::alloc, alloc_stub)]
#[kani::stub(alloc::alloc::dealloc_nonnull, dealloc_stub)]
fn qp_deprecated_as_mut_slice_empty_shared_never_returns() {
    crate::ghost::arm();
    let a: Arc<[MaybeUninit<u16>]> = Arc::new_uninit_slice(0);
    let other = a.clone();
    let mut h = a;
    kani::cover!(true, "reached the shared call");
    let _ = h.as_mut_slice();
    assert!(false, "deprecated as_mut_slice returned on a shared (empty) slice instead of panicking");
}
#[kani::proof]
#[kani::unwind(6)]
#[kani::stub(std::alloc::alloc, alloc_stub)]
#[kani::stub(alloc::alloc::dealloc_nonnull, dealloc_stub)]
fn qp_deprecated_as_mut_slice_empty_any_count() {
    crate::ghost::arm();
    let a: Arc<[MaybeUninit<u16>]> = Arc::new_uninit_slice(0);
    let w = ManuallyDrop::new(unsafe { core::ptr::read(&a) });
    let mut h = a;
    let c: usize = kani::any();
    kani::assume(c >= 1 && c <= MAXC);
    set_count(&w, c);
    let s = h.as_mut_slice();
    assert!(c == 1, "deprecated as_mut_slice (empty slice) returned for a shared allocation");
    assert!(s.is_empty());
    kani::cover!(true, "sole owner may call it");
    forget(h);
}

// zero-sized element types: the uninit constructors take any length and never refuse
h!(q_uninit_zst_elements, {
    let u = UniqueArc::<[MaybeUninit<Zst>]>::new_uninit_slice(3);
    assert!(u.len() == 3);
    let a = unsafe { UniqueArc::assume_init_slice(u) }.shareable();
    assert!(a.len() == 3 && Arc::count(&a) == 1);
    drop(a);
    let v = UniqueArc::<HeaderSlice<Dt, [MaybeUninit<Zst16>]>>::from_header_and_uninit_slice(Dt::new(0, 1), 2);
    assert!(v.slice.len() == 2 && v.header.id == 0 && ledger_zero());
    drop(v);
    assert!(ledger_is(0, 1) && n_live() == 0);
    let w = Arc::<[MaybeUninit<Zst>]>::new_uninit_slice(0);
    assert!(w.len() == 0);
    drop(w);
    assert!(n_live() == 0);
});


// ---- over-aligned payload: the slot handed out by write / as_mut_ptr is the payload's own (aligned) place,
//      not the word after the count
h!(q_new_uninit_overaligned, {
    let b: [u8; 33] = kani::any();
    let mut u = UniqueArc::<S33a32>::new_uninit();
    let blk = block_nr(0);
    assert!(blk.align == 32 && blk.size == 96, "new_uninit: wrong layout for an over-aligned payload");
    let slot = u.as_mut_ptr() as usize;
    assert!(slot == blk.addr + 32, "as_mut_ptr is not the payload's place");
    u.write(S33a32(b));
    let u = unsafe { UniqueArc::assume_init(u) };
    assert!(&*u as *const S33a32 as usize == slot && u.0[0] == b[0] && u.0[32] == b[32], "value written through write() is not what assume_init exposes");
    let a = u.shareable();
    drop(a);
    assert!(n_live() == 0);
    let mut a = Arc::<MaybeUninit<S33a32>>::new_uninit();
    let slot = a.as_mut_ptr() as usize;
    assert!(slot == a.heap_ptr() as usize + 32 && slot % 32 == 0);
    unsafe { (a.as_mut_ptr() as *mut S33a32).write(S33a32(b)) };
    let a = unsafe { a.assume_init() };
    assert!(a.0[1] == b[1] && Arc::as_ptr(&a) as usize == slot);
    drop(a);
    assert!(n_live() == 0);
});
// small payloads: the block requested by new_uninit is the block released (size padded to the alignment)
h!(q_new_uninit_small_layouts, {
    let u = UniqueArc::<u8>::new_uninit();
    assert!(block_nr(0).size == 16 && block_nr(0).align == 8, "new_uninit::<u8>: wrong layout");
    drop(u);
    let mut u = UniqueArc::<[u8; 3]>::new_uninit();
    assert!(block_nr(1).size == 16 && block_nr(1).align == 8, "new_uninit::<[u8;3]>: wrong layout");
    u.write([1, 2, 3]);
    let a = unsafe { UniqueArc::assume_init(u) }.shareable();
    assert!(a[2] == 3);
    drop(a);
    let a = Arc::<MaybeUninit<u32>>::new_uninit();
    assert!(block_nr(2).size == 16 && block_nr(2).align == 8);
    drop(a);
    assert!(n_live() == 0);
});


// ---- empty uninitialised slices whose element type is the most aligned thing in the block
h!(q_uninit_empty_overaligned, {
    let a = Arc::<[MaybeUninit<S5a16>]>::new_uninit_slice(0);
    assert!(block_nr(0).align >= 16 && (a.as_ptr() as *const u8 as usize) % 16 == 0, "empty over-aligned slice: element alignment lost");
    let a = unsafe { a.assume_init() };
    assert!(a.len() == 0);
    drop(a);
    let u = UniqueArc::<HeaderSlice<u8, [MaybeUninit<S5a16>]>>::from_header_and_uninit_slice(3, 0);
    assert!(block_nr(1).align >= 16 && (u.slice.as_ptr() as usize) % 16 == 0);
    let u = unsafe { u.assume_init_slice_with_header() };
    assert!(u.header == 3 && u.slice.len() == 0);
    drop(u);
    assert!(n_live() == 0);
});
