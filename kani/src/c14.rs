//! C14 — comparison, ordering, hashing and formatting see through the pointer.
//!
//! BOUNDS: operand values fully symbolic within: Arc<u8>, Arc<(u8,u8)>, Arc<f32> (all bit
//!   patterns incl. NaN), Arc<[u8]> / Arc<str> with lengths (la, lb) in {0,1,2}^2 (enumerated),
//!   Arc<HeaderSlice<u8,[u8]>>, Arc<HeaderSlice<HeaderWithLength<u8>,[u8]>> with SYMBOLIC recorded
//!   lengths (equal and unequal to the slice length), ThinArc<u8,u8>, ThinArc<f32,f32>, OffsetArc,
//!   ArcBorrow, ArcUnion (both arms); operands in the same or in distinct allocations (symbolic).
//!   Operators: == != < <= > >= partial_cmp cmp; Hash through a recording Hasher; Debug/Display
//!   through a recording payload; Borrow/AsRef.
//! ASSUME: none beyond Kani's own models (no allocator stubs needed here).
//! OUTSIDE: real HashMap/BTreeMap lookups (SipHash and B-tree loops); slices longer than 2 (quick) / 3 (thorough).
use crate::ghost::*;
use core::cmp::Ordering;
use core::hash::{Hash, Hasher};
use core::mem::{forget, ManuallyDrop};
use triomphe::*;

/// Every relational operator of the handle type against the same operator on the values.
/// `same`: both handles refer to one allocation (then == may be true regardless of the value).
fn partial_ops<Hd: ?Sized + PartialOrd, V: ?Sized + PartialOrd>(ha: &Hd, hb: &Hd, va: &V, vb: &V, same: bool) {
    let e = ha == hb;
    if same {
        assert!(e || !(va == vb), "same-allocation handles of equal values compare unequal");
    } else {
        assert!(e == (va == vb), "== on handles differs from == on the values");
    }
    assert!((ha != hb) == !e, "!= is not the negation of ==");
    assert!((ha < hb) == (va < vb), "< on handles differs from < on the values");
    assert!((ha <= hb) == (va <= vb), "<= on handles differs from <= on the values");
    assert!((ha > hb) == (va > vb), "> on handles differs from > on the values");
    assert!((ha >= hb) == (va >= vb), ">= on handles differs from >= on the values");
    assert!(ha.partial_cmp(hb) == va.partial_cmp(vb), "partial_cmp on handles differs from partial_cmp on the values");
}
fn total_ops<Hd: ?Sized + Ord, V: ?Sized + Ord>(ha: &Hd, hb: &Hd, va: &V, vb: &V) {
    partial_ops(ha, hb, va, vb, false);
    let c = ha.cmp(hb);
    assert!(c == va.cmp(vb), "cmp on handles differs from cmp on the values");
    assert!((c == Ordering::Equal) == (ha == hb), "cmp == Equal is not equivalent to ==");
    assert!(ha.partial_cmp(hb) == Some(c), "partial_cmp disagrees with cmp");
    assert!((ha < hb) == (c == Ordering::Less) && (ha > hb) == (c == Ordering::Greater));
    assert!(hb.cmp(ha) == c.reverse(), "cmp is not antisymmetric");
}
fn eq_only<Hd: ?Sized + PartialEq, V: ?Sized + PartialEq>(ha: &Hd, hb: &Hd, va: &V, vb: &V, same: bool) {
    let e = ha == hb;
    if same {
        assert!(e || !(va == vb), "same-allocation handles of equal values compare unequal");
    } else {
        assert!(e == (va == vb), "== on handles differs from == on the values");
    }
    assert!((ha != hb) == !e, "!= is not the negation of ==");
}

// ---- recording hasher: the exact sequence of writes
#[derive(PartialEq)]
struct Rec {
    buf: [u8; 24],
    n: usize,
    calls: usize,
}
impl Rec {
    fn new() -> Rec {
        Rec { buf: [0; 24], n: 0, calls: 0 }
    }
}
impl Hasher for Rec {
    fn finish(&self) -> u64 {
        self.n as u64
    }
    fn write(&mut self, bytes: &[u8]) {
        self.calls += 1;
        for b in bytes {
            if self.n < 24 {
                self.buf[self.n] = *b;
            }
            self.n += 1;
        }
    }
}
fn same_hash<Hd: ?Sized + Hash, V: ?Sized + Hash>(h: &Hd, v: &V) {
    let mut r1 = Rec::new();
    let mut r2 = Rec::new();
    h.hash(&mut r1);
    v.hash(&mut r2);
    assert!(r1.n == r2.n && r1.calls == r2.calls, "handle and value feed the hasher differently");
    assert!(r1.buf == r2.buf, "handle and value feed the hasher different bytes");
    assert!(r1.n <= 24);
}

macro_rules! h {
    ($name:ident, $unw:expr, $body:expr) => {
        #[kani::proof]
        #[kani::unwind($unw)]
        fn $name() {
            crate::ghost::arm();
            $body
        }
    };
}

// ------------------------------------------------------------------ sized payloads behind Arc
h!(q_arc_u8, 27, {
    let (x, y): (u8, u8) = kani::any();
    let a = Arc::new(x);
    let b = Arc::new(y);
    total_ops(&a, &b, &x, &y);
    same_hash(&a, &x);
    let c = a.clone();
    partial_ops(&a, &c, &x, &x, true);
    assert!(a == c && a.cmp(&c) == Ordering::Equal);
    kani::cover!(x == y);
    kani::cover!(x < y);
});
h!(q_arc_pair, 27, {
    let (x, y): ((u8, u8), (u8, u8)) = kani::any();
    let a = Arc::new(x);
    let b = Arc::new(y);
    total_ops(&a, &b, &x, &y);
    same_hash(&a, &x);
    kani::cover!(x.0 == y.0 && x.1 < y.1);
});
h!(q_arc_f32, 27, {
    let (x, y): (f32, f32) = kani::any();
    let a = Arc::new(x);
    let same: bool = kani::any();
    let b = if same { a.clone() } else { Arc::new(y) };
    let y = if same { x } else { y };
    partial_ops(&a, &b, &x, &y, same);
    kani::cover!(x.is_nan() && same, "NaN in one allocation");
    kani::cover!(x.is_nan() && !same && y.is_nan(), "NaN in two allocations");
    kani::cover!(x < y);
});
h!(q_borrow_asref, 27, {
    let x: u16 = kani::any();
    let a = Arc::new(x);
    let p = Arc::as_ptr(&a);
    let b: &u16 = core::borrow::Borrow::borrow(&a);
    let r: &u16 = a.as_ref();
    assert!(b as *const u16 == p && r as *const u16 == p, "Borrow/AsRef do not return the payload");
    // Borrow contract: Eq/Ord/Hash of the borrowed form agree with the handle's
    let c = Arc::new(kani::any::<u16>());
    let cb: &u16 = core::borrow::Borrow::borrow(&c);
    assert!((a == c) == (b == cb) && a.cmp(&c) == b.cmp(cb));
    same_hash(&a, b);
});

// ------------------------------------------------------------------ slices and str
fn slice_case<const LA: usize, const LB: usize>() {
    let x: [u8; LA] = kani::any();
    let y: [u8; LB] = kani::any();
    let a: Arc<[u8]> = Arc::from(&x[..]);
    let b: Arc<[u8]> = Arc::from(&y[..]);
    total_ops(&a, &b, &x[..], &y[..]);
    same_hash(&a, &x[..]);
}
h!(q_slice_2_2, 27, slice_case::<2, 2>());
h!(q_slice_1_2, 27, slice_case::<1, 2>());
h!(r0_slice_0_1, 27, slice_case::<0, 1>());
h!(r1_slice_2_0, 27, slice_case::<2, 0>());
h!(r2_slice_0_0, 27, slice_case::<0, 0>());
h!(r2_slice_1_1, 27, slice_case::<1, 1>());
h!(t_slice_3_3, 27, slice_case::<3, 3>());
h!(t_slice_3_2, 27, slice_case::<3, 2>());
h!(t_slice_0_3, 27, slice_case::<0, 3>());
fn str_case<const LA: usize, const LB: usize>() {
    let mut x: [u8; LA] = kani::any();
    let mut y: [u8; LB] = kani::any();
    for i in 0..LA {
        kani::assume(x[i] < 128);
    }
    for i in 0..LB {
        kani::assume(y[i] < 128);
    }
    let sx = unsafe { core::str::from_utf8_unchecked(&x[..]) };
    let sy = unsafe { core::str::from_utf8_unchecked(&y[..]) };
    let a: Arc<str> = Arc::from(sx);
    let b: Arc<str> = Arc::from(sy);
    total_ops(&a, &b, sx, sy);
    same_hash(&a, sx);
}
h!(q_str_2_2, 27, str_case::<2, 2>());
h!(r0_str_1_2, 27, str_case::<1, 2>());
h!(r1_str_0_2, 27, str_case::<0, 2>());

// ------------------------------------------------------------------ header + slice payloads
fn hs_case<const LA: usize, const LB: usize>() {
    let (ha, hb): (u8, u8) = kani::any();
    let x: [u8; LA] = kani::any();
    let y: [u8; LB] = kani::any();
    let a = Arc::from_header_and_slice(ha, &x[..]);
    let b = Arc::from_header_and_slice(hb, &y[..]);
    // a header-slice value orders as its header followed by its slice
    total_ops(&a, &b, &(ha, &x[..]), &(hb, &y[..]));
    total_ops(&*a, &*b, &(ha, &x[..]), &(hb, &y[..]));
    let mut r1 = Rec::new();
    let mut r2 = Rec::new();
    a.hash(&mut r1);
    (*a).hash(&mut r2);
    assert!(r1.n == r2.n && r1.buf == r2.buf);
    kani::cover!(ha == hb);
}
h!(q_hs_2_2, 27, hs_case::<2, 2>());
h!(q_hs_1_2, 27, hs_case::<1, 2>());
h!(r0_hs_2_1, 27, hs_case::<2, 1>());
h!(r1_hs_0_1, 27, hs_case::<0, 1>());
h!(r2_hs_0_0, 27, hs_case::<0, 0>());
h!(t_hs_3_3, 27, hs_case::<3, 3>());
h!(t_hs_2_3, 27, hs_case::<2, 3>());

/// header-with-length payloads with arbitrary recorded lengths (publicly constructible):
/// all operators must be mutually consistent, and agree with (header, slice) whenever the
/// recorded lengths agree.
fn hwl_case<const LA: usize, const LB: usize>() {
    let (ha, hb): (u8, u8) = kani::any();
    let (ra, rb): (usize, usize) = kani::any();
    let x: [u8; LA] = kani::any();
    let y: [u8; LB] = kani::any();
    let a = Arc::from_header_and_slice(HeaderWithLength::new(ha, ra), &x[..]);
    let b = Arc::from_header_and_slice(HeaderWithLength::new(hb, rb), &y[..]);
    let e = a == b;
    let c = a.cmp(&b);
    assert!((a != b) == !e, "!= is not the negation of ==");
    assert!((c == Ordering::Equal) == e, "cmp == Equal is not equivalent to == (recorded length seen by one, not the other)");
    assert!(a.partial_cmp(&b) == Some(c), "partial_cmp disagrees with cmp");
    assert!((a < b) == (c == Ordering::Less) && (a > b) == (c == Ordering::Greater), "< / > disagree with cmp");
    assert!((a <= b) == (c != Ordering::Greater) && (a >= b) == (c != Ordering::Less), "<= / >= disagree with cmp");
    assert!(b.cmp(&a) == c.reverse());
    // equal values must hash equally
    if e {
        let mut r1 = Rec::new();
        let mut r2 = Rec::new();
        a.hash(&mut r1);
        b.hash(&mut r2);
        assert!(r1.n == r2.n && r1.buf == r2.buf, "equal handles hash differently");
    }
    // it orders as its header followed by its slice (recorded length at most a tie-breaker)
    let vc = (ha, &x[..]).cmp(&(hb, &y[..]));
    if vc != Ordering::Equal {
        assert!(c == vc, "does not order as header followed by slice");
    }
    if ra == rb {
        assert!(e == ((ha, &x[..]) == (hb, &y[..])) && c == vc);
    }
    // the value behind the handle behaves the same
    assert!((*a == *b) == e && (*a).cmp(&*b) == c);
    kani::cover!(ra != rb && ha == hb, "recorded lengths differ, headers agree");
    kani::cover!(ra == LA && rb == LB, "recorded lengths correct");
}
h!(q_hwl_1_1, 27, hwl_case::<1, 1>());
h!(q_hwl_2_1, 27, hwl_case::<2, 1>());
h!(r0_hwl_0_0, 27, hwl_case::<0, 0>());
h!(r1_hwl_2_2, 27, hwl_case::<2, 2>());
h!(r2_hwl_0_2, 27, hwl_case::<0, 2>());
h!(t_hwl_3_3, 27, hwl_case::<3, 3>());
h!(t_hwl_1_3, 27, hwl_case::<1, 3>());

// ------------------------------------------------------------------ ThinArc
fn thin_case<const LA: usize, const LB: usize>() {
    let (ha, hb): (u8, u8) = kani::any();
    let x: [u8; LA] = kani::any();
    let y: [u8; LB] = kani::any();
    let a = ThinArc::from_header_and_slice(ha, &x[..]);
    let b = ThinArc::from_header_and_slice(hb, &y[..]);
    total_ops(&a, &b, &(ha, &x[..]), &(hb, &y[..]));
    let fa = Arc::from_header_and_slice(HeaderWithLength::new(ha, LA), &x[..]);
    let mut r1 = Rec::new();
    let mut r2 = Rec::new();
    a.hash(&mut r1);
    (*fa).hash(&mut r2);
    assert!(r1.n == r2.n && r1.buf == r2.buf, "ThinArc hashes differently from the value it holds");
    let a2 = a.clone();
    assert!(a == a2 && a.cmp(&a2) == Ordering::Equal && !(a != a2));
}
h!(q_thin_2_2, 27, thin_case::<2, 2>());
h!(q_thin_1_2, 27, thin_case::<1, 2>());
h!(r0_thin_0_0, 27, thin_case::<0, 0>());
h!(r1_thin_2_0, 27, thin_case::<2, 0>());
h!(r2_thin_1_1, 27, thin_case::<1, 1>());
h!(t_thin_3_3, 27, thin_case::<3, 3>());
h!(t_thin_3_1, 27, thin_case::<3, 1>());
h!(q_thin_f32, 27, {
    let (ha, hb, xa, xb): (f32, f32, f32, f32) = kani::any();
    let a = ThinArc::from_header_and_slice(ha, &[xa][..]);
    let same: bool = kani::any();
    let b = if same { a.clone() } else { ThinArc::from_header_and_slice(hb, &[xb][..]) };
    let (hb, xb) = if same { (ha, xa) } else { (hb, xb) };
    partial_ops(&a, &b, &(ha, &[xa][..]), &(hb, &[xb][..]), same);
    kani::cover!(ha.is_nan() && same);
    kani::cover!(ha == hb && xa.is_nan() && !same);
});

// ------------------------------------------------------------------ OffsetArc / ArcBorrow / ArcUnion
h!(q_offset_eq, 27, {
    let (x, y): (f32, f32) = kani::any();
    let a = Arc::into_raw_offset(Arc::new(x));
    let same: bool = kani::any();
    let b = if same { a.clone() } else { Arc::into_raw_offset(Arc::new(y)) };
    let y = if same { x } else { y };
    eq_only(&a, &b, &x, &y, same);
    kani::cover!(x.is_nan());
    kani::cover!(x == y && !same);
});
h!(q_borrow_eq, 27, {
    let (x, y): (u8, u8) = kani::any();
    let a = Arc::new(x);
    let same: bool = kani::any();
    let b = if same { a.clone() } else { Arc::new(y) };
    let y = if same { x } else { y };
    eq_only(&a.borrow_arc(), &b.borrow_arc(), &x, &y, same);
    kani::cover!(x == y && !same, "equal values in distinct allocations");
    kani::cover!(x != y);
});
h!(q_union_eq, 27, {
    let (x, y): (u8, u8) = kani::any();
    let first: bool = kani::any();
    let same: bool = kani::any();
    let a = Arc::new(x);
    let b = if same { a.clone() } else { Arc::new(y) };
    let y = if same { x } else { y };
    let (ua, ub) = if first {
        (ArcUnion::<u8, u8>::from_first(a), ArcUnion::<u8, u8>::from_first(b))
    } else {
        (ArcUnion::<u8, u8>::from_second(a), ArcUnion::<u8, u8>::from_second(b))
    };
    eq_only(&ua, &ub, &x, &y, same);
    kani::cover!(x == y && !same && first, "equal values, distinct allocations, first arm");
    kani::cover!(x == y && !same && !first, "equal values, distinct allocations, second arm");
});

h!(q_union_mixed_variants, 27, {
    // different variants hold different things: never equal, always unequal - `==` and `!=` stay each other's negation
    let (x, y): (u8, u8) = kani::any();
    let ua = ArcUnion::<u8, u8>::from_first(Arc::new(x));
    let ub = ArcUnion::<u8, u8>::from_second(Arc::new(y));
    assert!(!(ua == ub) && (ua != ub) && !(ub == ua) && (ub != ua), "== / != on unions of different variants are not each other's negation");
    kani::cover!(x == y);
});

// ------------------------------------------------------------------ formatting
static mut FMT_CALLS: usize = 0;
static mut FMT_ADDR: usize = 0;
static mut FMT_ALT: bool = false;
static mut FMT_KIND: u8 = 0;
static mut FMT_FAIL: bool = false;
struct P(u8);
fn record(p: &P, f: &core::fmt::Formatter, kind: u8) -> core::fmt::Result {
    unsafe {
        FMT_CALLS += 1;
        FMT_ADDR = p as *const P as usize;
        FMT_ALT = f.alternate();
        FMT_KIND = kind;
        if FMT_FAIL { Err(core::fmt::Error) } else { Ok(()) }
    }
}
impl core::fmt::Debug for P {
    fn fmt(&self, f: &mut core::fmt::Formatter) -> core::fmt::Result {
        record(self, f, 1)
    }
}
impl core::fmt::Display for P {
    fn fmt(&self, f: &mut core::fmt::Formatter) -> core::fmt::Result {
        record(self, f, 2)
    }
}
struct Sink;
impl core::fmt::Write for Sink {
    fn write_str(&mut self, _: &str) -> core::fmt::Result {
        Ok(())
    }
}
fn fmt_contract(addr: usize, mode: u8, run: impl FnOnce(&mut Sink, u8) -> core::fmt::Result) {
    let fail: bool = kani::any();
    unsafe { FMT_FAIL = fail };
    let r = run(&mut Sink, mode);
    unsafe {
        assert!(FMT_CALLS == 1, "the payload's formatter must be invoked exactly once");
        assert!(FMT_ADDR == addr, "the formatter was not invoked on the payload");
        assert!(FMT_ALT == (mode == 1 || mode == 3), "formatting flags were not passed through");
        assert!(FMT_KIND == if mode >= 2 { 2 } else { 1 }, "Debug/Display mixed up");
        assert!(r.is_err() == fail, "the payload formatter's result was not forwarded");
    }
    kani::cover!(fail);
    kani::cover!(!fail);
}
fn modes_debug<X: core::fmt::Debug>(x: &X) -> impl FnOnce(&mut Sink, u8) -> core::fmt::Result + '_ {
    move |s, m| {
        if m == 0 {
            core::fmt::write(s, format_args!("{:?}", x))
        } else {
            core::fmt::write(s, format_args!("{:#?}", x))
        }
    }
}
h!(q_fmt_arc_debug, 27, {
    let a = Arc::new(P(1));
    let m: u8 = kani::any();
    kani::assume(m <= 1);
    fmt_contract(Arc::as_ptr(&a) as usize, m, modes_debug(&a));
});
h!(q_fmt_arc_display, 27, {
    let a = Arc::new(P(1));
    let m: u8 = kani::any();
    kani::assume(m == 2 || m == 3);
    fmt_contract(Arc::as_ptr(&a) as usize, m, |s, m| {
        if m == 2 {
            core::fmt::write(s, format_args!("{}", a))
        } else {
            core::fmt::write(s, format_args!("{:#}", a))
        }
    });
});
h!(q_fmt_offset_debug, 27, {
    let a = Arc::new(P(1));
    let addr = Arc::as_ptr(&a) as usize;
    let o = Arc::into_raw_offset(a);
    let m: u8 = kani::any();
    kani::assume(m <= 1);
    fmt_contract(addr, m, modes_debug(&o));
});
h!(q_fmt_borrow_debug, 27, {
    let a = Arc::new(P(1));
    let b = a.borrow_arc();
    let m: u8 = kani::any();
    kani::assume(m <= 1);
    fmt_contract(Arc::as_ptr(&a) as usize, m, modes_debug(&b));
});
h!(r0_fmt_union_debug, 27, {
    // the union may add its variant name around it, but the value's own Debug must be what prints the value
    let a = Arc::new(P(1));
    let addr = Arc::as_ptr(&a) as usize;
    let u = ArcUnion::<u16, P>::from_second(a);
    fmt_contract(addr, 0, modes_debug(&u));
});

