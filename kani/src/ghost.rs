//! Ghost instrumentation shared by all harnesses (DESIGN.md section 3.2).
use core::alloc::Layout;
use core::ptr::NonNull;
use core::sync::atomic::{AtomicUsize, Ordering};
use triomphe::Arc;

// ---------------------------------------------------------------- abort stub
pub static mut ABORTED: bool = false;

/// Replaces `std::process::abort`: records that the abort path was taken and ends the path.
pub fn abort_stub() -> ! {
    unsafe {
        ABORTED = true;
    }
    #[cfg(kani)]
    {
        kani::cover!(true, "abort reached");
        kani::assume(false);
    }
    loop {}
}

/// Store an arbitrary value in the count word of a live allocation (hook of DESIGN 3.3).
pub fn set_count<T: ?Sized>(a: &Arc<T>, c: usize) {
    Arc::__verif_count_word(a).store(c, Ordering::Relaxed);
}
pub fn raw_count<T: ?Sized>(a: &Arc<T>) -> usize {
    Arc::__verif_count_word(a).load(Ordering::Relaxed)
}
