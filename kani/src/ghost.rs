//! Ghost instrumentation shared by all harnesses (DESIGN.md section 3.2).
use core::alloc::Layout;
use core::ptr::NonNull;
use core::sync::atomic::{AtomicUsize, Ordering};
use triomphe::Arc;

// ---------------------------------------------------------------- abort stub
pub static mut ABORTED: bool = false;

/// Replaces `std::process::abort`: records that the abort path was taken and ends the path.
pub fn abort_stub() -> ! {
    unsafe {
        ABORTED = true;
    }
    #[cfg(kani)]
    {
        kani::cover!(true, "abort reached");
        kani::assume(false);
    }
    loop {}
}

/// Store an arbitrary value in the count word of a live allocation (hook of DESIGN 3.3).
pub fn set_count<T: ?Sized>(a: &Arc<T>, c: usize) {
    Arc::__verif_count_word(a).store(c, Ordering::Relaxed);
}
pub fn raw_count<T: ?Sized>(a: &Arc<T>) -> usize {
    Arc::__verif_count_word(a).load(Ordering::Relaxed)
}

// ---------------------------------------------------------------- layout log
extern "C" {
    fn malloc(n: usize) -> *mut core::ffi::c_void;
    fn free(p: *mut core::ffi::c_void);
}

pub const NLOG: usize = 8;
#[derive(Clone, Copy)]
pub struct Block {
    pub addr: usize,
    pub size: usize,
    pub align: usize,
    pub live: bool,
}
pub static mut LOG: [Block; NLOG] = [Block { addr: 0, size: 0, align: 0, live: false }; NLOG];
pub static mut NALLOC: usize = 0;
pub static mut NDEALLOC: usize = 0;
/// When set, the next allocation request fails (returns null); used by C07.
pub static mut FAIL_ALLOC_AT: usize = usize::MAX;
pub static mut ALLOC_ERROR_HANDLER_CALLED: bool = false;

/// Replaces `std::alloc::alloc`: logs (address, size, align) of every block requested from the
/// global allocator. Memory comes from CBMC's `malloc` model (fresh object, nondeterministic
/// contents).
pub unsafe fn alloc_stub(layout: Layout) -> *mut u8 {
    let i = NALLOC;
    assert!(i < NLOG, "ghost: layout log full");
    assert!(layout.size() > 0, "ghost: zero-sized request to the global allocator");
    NALLOC += 1;
    if i == FAIL_ALLOC_AT {
        LOG[i] = Block { addr: 0, size: layout.size(), align: layout.align(), live: false };
        return core::ptr::null_mut();
    }
    let p = malloc(layout.size()) as *mut u8;
    #[cfg(kani)]
    kani::assume(!p.is_null());
    LOG[i] = Block { addr: p as usize, size: layout.size(), align: layout.align(), live: true };
    p
}

/// Replaces `alloc::alloc::dealloc_nonnull` (what `Box`/`Vec` drop reach) and checks the layout
/// handed back against the one logged at allocation time.
pub unsafe fn dealloc_stub(ptr: NonNull<u8>, layout: Layout) {
    let a = ptr.as_ptr() as usize;
    let mut found = 0usize;
    macro_rules! slot {
        ($i:expr) => {
            if $i < NALLOC && LOG[$i].live && LOG[$i].addr == a {
                found += 1;
                assert!(LOG[$i].size == layout.size(), "ghost: block freed with a size different from the one requested");
                assert!(LOG[$i].align == layout.align(), "ghost: block freed with an alignment different from the one requested");
                LOG[$i].live = false;
            }
        };
    }
    slot!(0);
    slot!(1);
    slot!(2);
    slot!(3);
    slot!(4);
    slot!(5);
    slot!(6);
    slot!(7);
    assert!(found == 1, "ghost: freed a block that is not live in the layout log (double free / foreign pointer)");
    NDEALLOC += 1;
    free(ptr.as_ptr() as *mut core::ffi::c_void);
}

pub fn hae_stub(_layout: Layout) -> ! {
    unsafe {
        ALLOC_ERROR_HANDLER_CALLED = true;
    }
    #[cfg(kani)]
    kani::assume(false);
    loop {}
}
/// same, with a reachability witness (used where the failure path must be shown to be taken)
pub fn hae_stub_cov(_layout: Layout) -> ! {
    unsafe {
        ALLOC_ERROR_HANDLER_CALLED = true;
        assert!(FAIL_ALLOC_AT < NALLOC, "handle_alloc_error reached although no allocation failed");
    }
    #[cfg(kani)]
    {
        kani::cover!(true, "handle_alloc_error reached");
        kani::assume(false);
    }
    loop {}
}

pub fn n_live() -> usize {
    assert!(!layout_mismatch(), "ghost: a block was freed with a layout different from the one it was requested with (native log)");
    unsafe {
        let mut n = 0;
        macro_rules! slot {
            ($i:expr) => {
                if $i < NALLOC && LOG[$i].live {
                    n += 1;
                }
            };
        }
        slot!(0);
        slot!(1);
        slot!(2);
        slot!(3);
        slot!(4);
        slot!(5);
        slot!(6);
        slot!(7);
    slot!(6);
    slot!(7);
        n
    }
}
/// The live log entry for the block starting at `addr`, if any.
pub fn block_of(addr: usize) -> Option<Block> {
    unsafe {
        let mut r = None;
        macro_rules! slot {
            ($i:expr) => {
                if $i < NALLOC && LOG[$i].live && LOG[$i].addr == addr {
                    r = Some(LOG[$i]);
                }
            };
        }
        slot!(0);
        slot!(1);
        slot!(2);
        slot!(3);
        slot!(4);
        slot!(5);
        slot!(6);
        slot!(7);
    slot!(6);
    slot!(7);
        r
    }
}
/// Log entry number `i` (in request order), live or not.
pub fn block_nr(i: usize) -> Block {
    unsafe {
        assert!(i < NALLOC && i < NLOG);
        LOG[i]
    }
}
pub fn nalloc() -> usize {
    unsafe { NALLOC }
}
pub fn ndealloc() -> usize {
    unsafe { NDEALLOC }
}

// ---------------------------------------------------------------- drop / clone ledger
pub const NIDS: usize = 16;
pub static mut DROPS: [u8; NIDS] = [0; NIDS];
pub static mut CLONES: u8 = 0;

/// Drop-tracked value. `id` indexes the ledger; a drop of memory that was never written sees a
/// nondeterministic id and trips the range assertion (or a ledger mismatch) for some value.
#[derive(Debug)]
#[repr(C)]
pub struct Dt {
    pub id: u8,
    pub v: u8,
}
impl Dt {
    pub fn new(id: u8, v: u8) -> Dt {
        Dt { id, v }
    }
}
impl Drop for Dt {
    fn drop(&mut self) {
        assert!((self.id as usize) < NIDS, "ghost: destructor ran on a slot that was never written");
        unsafe {
            assert!(DROPS[self.id as usize] < 200);
            DROPS[self.id as usize] += 1;
        }
    }
}
/// A clone gets id+8 so that clone and original are told apart in the ledger.
impl Clone for Dt {
    fn clone(&self) -> Dt {
        unsafe {
            CLONES += 1;
        }
        Dt { id: self.id.wrapping_add(8), v: self.v }
    }
}
impl PartialEq for Dt {
    fn eq(&self, o: &Dt) -> bool {
        self.v == o.v
    }
}
pub fn drops(id: usize) -> u8 {
    unsafe { DROPS[id] }
}
pub fn clones() -> u8 {
    unsafe { CLONES }
}
/// Ledger shows: ids in `lo..hi` dropped exactly once, everything else never.
pub fn ledger_is(lo: usize, hi: usize) -> bool {
    let mut ok = true;
    macro_rules! id {
        ($($i:expr),*) => {$(
            if drops($i) != (if $i >= lo && $i < hi { 1 } else { 0 }) {
                ok = false;
            }
        )*};
    }
    id!(0, 1, 2, 3, 4, 5, 6, 7, 8, 9, 10, 11, 12, 13, 14, 15);
    ok
}
pub fn ledger_zero() -> bool {
    ledger_is(0, 0)
}

pub trait Tr {
    fn v(&self) -> u8;
}
impl Tr for Dt {
    fn v(&self) -> u8 {
        self.v
    }
}
impl Tr for u16 {
    fn v(&self) -> u8 {
        *self as u8
    }
}

/// Over-aligned and odd-sized shapes (DESIGN 3.4).
macro_rules! shape {
    ($name:ident, $n:expr, $a:expr) => {
        #[repr(C, align($a))]
        #[derive(Clone, Copy, PartialEq, Debug)]
        pub struct $name(pub [u8; $n]);
        impl Tr for $name {
            fn v(&self) -> u8 {
                self.0[0]
            }
        }
    };
}
shape!(S1a1, 1, 1);
shape!(S3a1, 3, 1);
shape!(S3a2, 3, 2);
shape!(S5a4, 5, 4);
shape!(S8a8, 8, 8);
shape!(S12a4, 12, 4);
shape!(S5a16, 5, 16);
shape!(S24a8, 24, 8);
shape!(S33a32, 33, 32);
shape!(S1a64, 1, 64);
shape!(S17a16, 17, 16);
#[derive(Clone, Copy, PartialEq, Debug)]
pub struct Zst;
#[repr(align(16))]
#[derive(Clone, Copy, PartialEq, Debug)]
pub struct Zst16;

/// Replaces `alloc::alloc::realloc_nonnull` (Vec/String growth): logged free + logged alloc + copy.
pub unsafe fn realloc_stub(ptr: NonNull<u8>, layout: Layout, new_size: usize) -> *mut u8 {
    let new_layout = Layout::from_size_align_unchecked(new_size, layout.align());
    let p = alloc_stub(new_layout);
    if !p.is_null() {
        let n = if new_size < layout.size() { new_size } else { layout.size() };
        core::ptr::copy_nonoverlapping(ptr.as_ptr(), p, n);
        dealloc_stub(ptr, layout);
    }
    p
}

// ---------------------------------------------------------------- native replay support
// Under `cargo kani playback` stubs are not applied. When the driver builds the playback test it
// passes `--cfg verif_playback`: a logging global allocator then feeds the same layout log, so
// the harness assertions mean the same natively. The logger is inert until a harness arms it.
#[cfg(verif_playback)]
pub mod native {
    use super::*;
    use std::alloc::{GlobalAlloc, System};
    pub static mut ARMED: bool = false;
    pub static mut LAYOUT_MISMATCH: bool = false;
    pub struct Logger;
    unsafe impl GlobalAlloc for Logger {
        unsafe fn alloc(&self, layout: Layout) -> *mut u8 {
            let p = System.alloc(layout);
            if ARMED && NALLOC < NLOG {
                LOG[NALLOC] = Block { addr: p as usize, size: layout.size(), align: layout.align(), live: true };
                NALLOC += 1;
            }
            p
        }
        unsafe fn dealloc(&self, ptr: *mut u8, layout: Layout) {
            if ARMED {
                let mut found = false;
                let mut i = 0;
                while i < NLOG {
                    if i < NALLOC && LOG[i].live && LOG[i].addr == ptr as usize {
                        found = true;
                        if LOG[i].size != layout.size() || LOG[i].align != layout.align() {
                            LAYOUT_MISMATCH = true;
                        }
                        LOG[i].live = false;
                        NDEALLOC += 1;
                    }
                    i += 1;
                }
                let _ = found; // blocks allocated before arming (test harness) are not ours
            }
            System.dealloc(ptr, layout)
        }
    }
    #[global_allocator]
    static GA: Logger = Logger;
}
/// Called at the start of every harness: no-op under verification, arms the native logger in replay.
pub fn arm() {
    #[cfg(verif_playback)]
    unsafe {
        NALLOC = 0;
        NDEALLOC = 0;
        native::ARMED = true;
    }
}
pub fn layout_mismatch() -> bool {
    #[cfg(verif_playback)]
    unsafe {
        return native::LAYOUT_MISMATCH;
    }
    false
}


// ---------------------------------------------------------------- weak compare-exchange
/// Replaces `core::sync::atomic::atomic_compare_exchange_weak`: like the real operation it may fail
/// spuriously (nondeterministically) even when the value matches; Kani's built-in model never does.
#[cfg(kani)]
pub unsafe fn cas_weak_stub<T: Copy + PartialEq>(dst: *mut T, old: T, new: T, _s: Ordering, _f: Ordering) -> Result<T, T> {
    let cur = *dst;
    let spurious: bool = kani::any();
    if cur == old && !spurious {
        *dst = new;
        Ok(cur)
    } else {
        Err(cur)
    }
}

/// `std::thread::panicking()` is environment: a handle may be released at any point of an unwinding, so the
/// answer is an arbitrary bool. What a property says about releasing a handle holds in either case.
pub fn panicking_stub() -> bool {
    kani::any()
}
