//! C17 — serialisation is transparent; deserialisation yields a fresh sole owner.
//!
//! BOUNDS: parametric: the payload type P has hand-written Serialize/Deserialize impls that
//!   record their receiver / return a SYMBOLIC Result; the (de)serializer is an opaque token
//!   type. Arc<P> and UniqueArc<P>; also a zero-sized payload. One (de)serializer call chain.
//! ASSUME: alloc/dealloc logging stubs (to observe "no allocation left behind").
//! OUTSIDE: concrete data formats; payload impls that are not parametric in the serializer.
use crate::ghost::*;
use core::mem::forget;
use serde::de::{Deserialize, Deserializer, Visitor};
use serde::ser::{Serialize, Serializer};
use triomphe::*;

macro_rules! h {
    ($name:ident, $body:expr) => {
        #[kani::proof]
        #[kani::unwind(4)]
        #[kani::stub(std::alloc::alloc, alloc_stub)]
        #[kani::stub(alloc::alloc::dealloc_nonnull, dealloc_stub)]
        fn $name() {
            crate::ghost::arm();
            $body;
            kani::cover!(true, "end of harness reached");
        }
    };
}

// ---- a serializer that is only a token: every method is unreachable except those the payload uses
#[derive(Debug, PartialEq, Clone, Copy)]
struct SerErr(u8);
impl core::fmt::Display for SerErr {
    fn fmt(&self, _: &mut core::fmt::Formatter) -> core::fmt::Result {
        Ok(())
    }
}
impl serde::ser::StdError for SerErr {}
impl serde::ser::Error for SerErr {
    fn custom<T: core::fmt::Display>(_: T) -> Self {
        SerErr(255)
    }
}
impl serde::de::Error for SerErr {
    fn custom<T: core::fmt::Display>(_: T) -> Self {
        SerErr(254)
    }
    // a structured error that re-rendering through `custom` cannot reproduce
    fn invalid_length(len: usize, _: &dyn serde::de::Expected) -> Self {
        SerErr(len as u8)
    }
}
struct Tok(u8);
static mut UNIT_CALLS: usize = 0;
macro_rules! unreachable_ser {
    ($($m:ident($($t:ty),*) -> $r:ty;)*) => {$(
        fn $m(self $(, _: $t)*) -> Result<$r, SerErr> { panic!("serializer method not expected") }
    )*};
}
impl Serializer for Tok {
    type Ok = u8;
    type Error = SerErr;
    type SerializeSeq = serde::ser::Impossible<u8, SerErr>;
    type SerializeTuple = serde::ser::Impossible<u8, SerErr>;
    type SerializeTupleStruct = serde::ser::Impossible<u8, SerErr>;
    type SerializeTupleVariant = serde::ser::Impossible<u8, SerErr>;
    type SerializeMap = serde::ser::Impossible<u8, SerErr>;
    type SerializeStruct = serde::ser::Impossible<u8, SerErr>;
    type SerializeStructVariant = serde::ser::Impossible<u8, SerErr>;
    fn is_human_readable(&self) -> bool {
        unsafe { SER_HUMAN }
    }
    fn serialize_u8(self, v: u8) -> Result<u8, SerErr> {
        // the payload forwards its own byte; answer depends on token and value. When a failure is injected the
        // SERIALIZER fails with a structured error of its own (not one made by `custom`, which a re-rendering
        // through `Error::custom` could reproduce)
        if let Some(code) = unsafe { SER_FAIL } {
            if code >= 2 {
                return Err(SerErr(code ^ self.0));
            }
        }
        Ok(self.0 ^ v)
    }
    fn serialize_unit(self) -> Result<u8, SerErr> {
        unsafe { UNIT_CALLS += 1 };
        Ok(0)
    }
    unreachable_ser! {
        serialize_bool(bool) -> u8; serialize_i8(i8) -> u8; serialize_i16(i16) -> u8; serialize_i32(i32) -> u8;
        serialize_i64(i64) -> u8; serialize_u16(u16) -> u8; serialize_u32(u32) -> u8; serialize_u64(u64) -> u8;
        serialize_f32(f32) -> u8; serialize_f64(f64) -> u8; serialize_char(char) -> u8; serialize_str(&str) -> u8;
        serialize_bytes(&[u8]) -> u8; serialize_none() -> u8; serialize_unit_struct(&'static str) -> u8;
        serialize_unit_variant(&'static str, u32, &'static str) -> u8;
        serialize_seq(Option<usize>) -> Self::SerializeSeq; serialize_tuple(usize) -> Self::SerializeTuple;
        serialize_tuple_struct(&'static str, usize) -> Self::SerializeTupleStruct;
        serialize_tuple_variant(&'static str, u32, &'static str, usize) -> Self::SerializeTupleVariant;
        serialize_map(Option<usize>) -> Self::SerializeMap; serialize_struct(&'static str, usize) -> Self::SerializeStruct;
        serialize_struct_variant(&'static str, u32, &'static str, usize) -> Self::SerializeStructVariant;
    }
    fn serialize_some<T: ?Sized + Serialize>(self, _: &T) -> Result<u8, SerErr> {
        panic!("serializer method not expected")
    }
    fn serialize_newtype_struct<T: ?Sized + Serialize>(self, _: &'static str, _: &T) -> Result<u8, SerErr> {
        panic!("serializer method not expected")
    }
    fn serialize_newtype_variant<T: ?Sized + Serialize>(self, _: &'static str, _: u32, _: &'static str, _: &T) -> Result<u8, SerErr> {
        panic!("serializer method not expected")
    }
    fn collect_str<T: ?Sized + core::fmt::Display>(self, _: &T) -> Result<u8, SerErr> {
        panic!("serializer method not expected")
    }
}

static mut SER_CALLS: usize = 0;
static mut SER_ADDR: usize = 0;
static mut SER_TOKEN: u8 = 0;
static mut SER_FAIL: Option<u8> = None;
static mut SER_HUMAN: bool = true;
struct P(u8);
impl Serialize for P {
    fn serialize<S: Serializer>(&self, s: S) -> Result<S::Ok, S::Error> {
        unsafe {
            SER_CALLS += 1;
            SER_ADDR = self as *const P as usize;
            if let Some(code) = SER_FAIL {
                if code < 2 {
                    return Err(<S::Error as serde::ser::Error>::custom(Code(code)));
                }
            }
        }
        s.serialize_u8(self.0)
    }
}
struct Code(u8);
impl core::fmt::Display for Code {
    fn fmt(&self, _: &mut core::fmt::Formatter) -> core::fmt::Result {
        Ok(())
    }
}

fn ser_contract<Hd: Serialize>(handle: &Hd, payload_addr: usize, v: u8) {
    let tok: u8 = kani::any();
    let fail: bool = kani::any();
    let by_serializer: bool = kani::any();
    unsafe { SER_HUMAN = kani::any() }; // binary and textual formats alike
    kani::assume(tok != 255 ^ 9); // keep the serializer's own error distinct from what `custom` yields
    unsafe { SER_FAIL = if fail { Some(if by_serializer { 9 } else { 1 }) } else { None } };
    let direct = P(v).serialize(Tok(tok));
    unsafe { SER_CALLS = 0 };
    let via = handle.serialize(Tok(tok));
    unsafe {
        assert!(SER_CALLS == 1, "the payload's Serialize impl must be driven exactly once");
        assert!(SER_ADDR == payload_addr, "Serialize was not invoked on the contained value");
        assert!(UNIT_CALLS == 0, "the handle made serializer calls of its own");
    }
    assert!(via == direct, "serialising the handle differs from serialising the value (result or error)");
    kani::cover!(fail && by_serializer, "error raised by the serializer itself");
    kani::cover!(fail && !by_serializer, "error raised by the value");
    kani::cover!(!fail, "success path");
}
h!(q_ser_arc, {
    let v: u8 = kani::any();
    let a = Arc::new(P(v));
    ser_contract(&a, Arc::as_ptr(&a) as usize, v);
});
h!(q_ser_unique, {
    let v: u8 = kani::any();
    let u = UniqueArc::new(P(v));
    ser_contract(&u, &*u as *const P as usize, v);
});
// zero-sized payload with an impl of its own: still delegated
static mut Z_CALLS: usize = 0;
struct Zp;
impl Serialize for Zp {
    fn serialize<S: Serializer>(&self, s: S) -> Result<S::Ok, S::Error> {
        unsafe { Z_CALLS += 1 };
        s.serialize_u8(42)
    }
}
h!(q_ser_zst_payload, {
    let tok: u8 = kani::any();
    let a = Arc::new(Zp);
    let r = a.serialize(Tok(tok));
    assert!(unsafe { Z_CALLS } == 1 && unsafe { UNIT_CALLS } == 0, "zero-sized payload was not serialised through its own impl");
    assert!(r == Ok(tok ^ 42));
    let u = UniqueArc::new(Zp);
    assert!(u.serialize(Tok(tok)) == Ok(tok ^ 42) && unsafe { Z_CALLS } == 2);
});

// ---- deserialisation
struct De(u8);
static mut DE_RESULT: Result<u8, u8> = Ok(0);
static mut DE_CALLS: usize = 0;
static mut DE_TOKEN: u8 = 0;
static mut DE_LIVE_AT_CALL: usize = 0;
impl<'de> Deserializer<'de> for De {
    type Error = SerErr;
    fn deserialize_any<V: Visitor<'de>>(self, _: V) -> Result<V::Value, SerErr> {
        panic!("deserializer method not expected")
    }
    serde::forward_to_deserialize_any! {
        bool i8 i16 i32 i64 i128 u8 u16 u32 u64 u128 f32 f64 char str string bytes byte_buf option unit
        unit_struct newtype_struct seq tuple tuple_struct map struct enum identifier ignored_any
    }
}
struct Q(u8);
impl<'de> Deserialize<'de> for Q {
    fn deserialize<D: Deserializer<'de>>(_d: D) -> Result<Q, D::Error> {
        unsafe {
            DE_CALLS += 1;
            match DE_RESULT {
                Ok(v) => Ok(Q(v)),
                Err(e) => Err(<D::Error as serde::de::Error>::invalid_length(e as usize, &"a Q")),
            }
        }
    }
}
h!(q_de_arc, {
    let ok: bool = kani::any();
    let v: u8 = kani::any();
    kani::assume(v != 254);
    unsafe { DE_RESULT = if ok { Ok(v) } else { Err(v) } };
    let r = <Arc<Q> as Deserialize>::deserialize(De(0));
    assert!(unsafe { DE_CALLS } == 1, "the value's own deserialiser must be run exactly once");
    match r {
        Ok(a) => {
            assert!(ok && a.0 == v, "deserialised value differs from what the value's deserialiser yields");
            assert!(Arc::count(&a) == 1 && a.is_unique(), "deserialised handle is not a sole owner");
            assert!(n_live() == 1 && nalloc() == 1, "exactly one allocation expected");
            drop(a);
            assert!(n_live() == 0);
        }
        Err(e) => {
            assert!(!ok && e == SerErr(v), "error was not passed through unchanged");
            assert!(n_live() == 0, "a failed deserialisation left an allocation behind");
        }
    }
    kani::cover!(ok);
    kani::cover!(!ok);
});
h!(q_de_unique, {
    let ok: bool = kani::any();
    let v: u8 = kani::any();
    kani::assume(v != 254);
    unsafe { DE_RESULT = if ok { Ok(v) } else { Err(v) } };
    let r = <UniqueArc<Q> as Deserialize>::deserialize(De(0));
    assert!(unsafe { DE_CALLS } == 1);
    match r {
        Ok(u) => {
            assert!(ok && u.0 == v);
            let a = u.shareable();
            assert!(Arc::count(&a) == 1 && n_live() == 1 && nalloc() == 1);
            drop(a);
            assert!(n_live() == 0);
        }
        Err(e) => {
            assert!(!ok && e == SerErr(v), "error was not passed through unchanged");
            assert!(n_live() == 0, "a failed deserialisation left an allocation behind");
        }
    }
    kani::cover!(ok);
    kani::cover!(!ok);
});

// ---- deserialize_in_place (what serde's derive uses for fields): same contract as assignment of a fresh handle
static mut QD_DROPS: [u8; 4] = [0; 4];
struct Qd(u8, u8); // (ledger id, value)
impl Drop for Qd {
    fn drop(&mut self) {
        unsafe { QD_DROPS[self.0 as usize] += 1 };
    }
}
impl<'de> Deserialize<'de> for Qd {
    fn deserialize<D: Deserializer<'de>>(_d: D) -> Result<Qd, D::Error> {
        unsafe {
            DE_CALLS += 1;
            match DE_RESULT {
                Ok(v) => Ok(Qd(1, v)),
                Err(e) => Err(<D::Error as serde::de::Error>::invalid_length(e as usize, &"a Qd")),
            }
        }
    }
}
h!(q_de_in_place_arc, {
    let ok: bool = kani::any();
    let shared: bool = kani::any();
    let v: u8 = kani::any();
    kani::assume(v != 254);
    unsafe { DE_RESULT = if ok { Ok(v) } else { Err(v) } };
    let mut place = Arc::new(Qd(0, 7));
    let other = if shared { Some(place.clone()) } else { None };
    let old = Arc::as_ptr(&place);
    let r = <Arc<Qd> as Deserialize>::deserialize_in_place(De(0), &mut place);
    match r {
        Ok(()) => {
            assert!(ok && place.1 == v && place.0 == 1, "place does not hold the deserialised value");
            assert!(Arc::count(&place) == 1, "deserialised handle is not a sole owner");
            match &other {
                Some(o) => {
                    assert!(Arc::count(o) == 1, "the old allocation did not lose exactly the owner that was overwritten");
                    assert!(o.1 == 7 && unsafe { QD_DROPS[0] } == 0);
                }
                None => assert!(unsafe { QD_DROPS[0] } == 1, "the overwritten sole-owned value was not destroyed exactly once"),
            }
        }
        Err(e) => {
            assert!(!ok && e == SerErr(v), "error was not passed through unchanged");
            assert!(Arc::as_ptr(&place) == old && place.1 == 7 && unsafe { QD_DROPS[0] } == 0, "a failed in-place deserialisation changed or destroyed the old value");
            assert!(Arc::count(&place) == if shared { 2 } else { 1 });
        }
    }
    drop(other);
    drop(place);
    assert!(unsafe { QD_DROPS[0] } == 1 && n_live() == 0, "old value not destroyed exactly once / something leaked");
    kani::cover!(ok && shared);
    kani::cover!(!ok);
});
h!(q_de_in_place_unique, {
    let ok: bool = kani::any();
    let v: u8 = kani::any();
    kani::assume(v != 254);
    unsafe { DE_RESULT = if ok { Ok(v) } else { Err(v) } };
    let mut place = UniqueArc::new(Qd(0, 7));
    let r = <UniqueArc<Qd> as Deserialize>::deserialize_in_place(De(0), &mut place);
    match r {
        Ok(()) => {
            assert!(ok && place.1 == v, "place does not hold the deserialised value");
            assert!(unsafe { QD_DROPS[0] } == 1, "the overwritten value was not destroyed exactly once");
        }
        Err(e) => {
            assert!(!ok && e == SerErr(v));
            assert!(place.1 == 7 && unsafe { QD_DROPS[0] } == 0, "a failed in-place deserialisation destroyed the value the handle still owns");
        }
    }
    drop(place);
    assert!(unsafe { QD_DROPS[0] } == 1 && unsafe { QD_DROPS[1] } == if ok { 1 } else { 0 } && n_live() == 0);
    kani::cover!(ok);
    kani::cover!(!ok);
});


// ---- a payload that owns something: the deserialised value is moved into the allocation exactly once (nothing
//      is destroyed while the handle is alive, in particular no stale / unwritten slot; one destruction with the handle)
fn qd_drops() -> (u8, u8, u8, u8) {
    unsafe { (QD_DROPS[0], QD_DROPS[1], QD_DROPS[2], QD_DROPS[3]) }
}
h!(q_de_arc_owned, {
    let ok: bool = kani::any();
    let v: u8 = kani::any();
    kani::assume(v != 254);
    unsafe { DE_RESULT = if ok { Ok(v) } else { Err(v) } };
    let r = <Arc<Qd> as Deserialize>::deserialize(De(0));
    assert!(unsafe { DE_CALLS } == 1);
    match r {
        Ok(a) => {
            assert!(ok && a.1 == v && a.0 == 1);
            assert!(qd_drops() == (0, 0, 0, 0), "something was destroyed while the deserialised handle is alive");
            assert!(Arc::count(&a) == 1 && n_live() == 1);
            drop(a);
            assert!(qd_drops() == (0, 1, 0, 0) && n_live() == 0, "the deserialised value must be destroyed exactly once, with its handle");
        }
        Err(_) => assert!(!ok && qd_drops() == (0, 0, 0, 0) && n_live() == 0),
    }
    kani::cover!(ok);
});
h!(q_de_unique_owned, {
    let ok: bool = kani::any();
    let v: u8 = kani::any();
    kani::assume(v != 254);
    unsafe { DE_RESULT = if ok { Ok(v) } else { Err(v) } };
    let r = <UniqueArc<Qd> as Deserialize>::deserialize(De(0));
    assert!(unsafe { DE_CALLS } == 1);
    match r {
        Ok(u) => {
            assert!(ok && u.1 == v && u.0 == 1);
            assert!(qd_drops() == (0, 0, 0, 0), "something was destroyed while the deserialised handle is alive");
            assert!(n_live() == 1);
            drop(u);
            assert!(qd_drops() == (0, 1, 0, 0) && n_live() == 0, "the deserialised value must be destroyed exactly once, with its handle");
        }
        Err(_) => assert!(!ok && qd_drops() == (0, 0, 0, 0) && n_live() == 0),
    }
    kani::cover!(ok);
});

// ---- a zero-sized payload still goes through its own Deserialize impl (it may validate its input, and fail)
struct Zq;
impl<'de> Deserialize<'de> for Zq {
    fn deserialize<D: Deserializer<'de>>(_d: D) -> Result<Zq, D::Error> {
        unsafe {
            DE_CALLS += 1;
            match DE_RESULT {
                Ok(_) => Ok(Zq),
                Err(e) => Err(<D::Error as serde::de::Error>::invalid_length(e as usize, &"a Zq")),
            }
        }
    }
}
h!(q_de_zst_payload, {
    let ok: bool = kani::any();
    let v: u8 = kani::any();
    kani::assume(v != 254);
    unsafe { DE_RESULT = if ok { Ok(v) } else { Err(v) } };
    let r = <Arc<Zq> as Deserialize>::deserialize(De(0));
    assert!(unsafe { DE_CALLS } == 1, "a zero-sized payload was not deserialised through its own impl");
    match r {
        Ok(a) => assert!(ok && Arc::count(&a) == 1),
        Err(e) => assert!(!ok && e == SerErr(v), "the payload's error was lost"),
    }
    unsafe { DE_CALLS = 0 };
    let r = <UniqueArc<Zq> as Deserialize>::deserialize(De(0));
    assert!(unsafe { DE_CALLS } == 1 && r.is_ok() == ok);
    kani::cover!(ok);
    kani::cover!(!ok);
});
