//! C01 — a shared value lives exactly as long as some owning handle does.
//!
//! BOUNDS: inductive step (DESIGN 4.1): ONE operation from an arbitrary valid state; the count
//!   word is a free 64-bit value in [1, isize::MAX-2]; payload bytes symbolic; slice/str length
//!   symbolic in 0..=2 (quick) / 0..=3 (thorough harnesses t_*). Handle kinds: Arc, OffsetArc,
//!   ArcUnion (either arm), ThinArc, raw pointers from Arc::into_raw / ThinArc::into_raw, arc-swap
//!   RefCnt pointers. Payloads: Drop-tracked sized value, u64, over-aligned (align 32) value,
//!   header+slice of Drop-tracked values, [Dt], str, dyn Trait.
//! BOUNDS: bounded symbolic histories (DESIGN 4.2): 2 slots x 3 (quick) / 4 (thorough) symbolic
//!   steps over clone / convert / borrow-read / drop on mixed kinds.
//! ASSUME: std::alloc::alloc and alloc::alloc::dealloc_nonnull are replaced by logging stubs over
//!   CBMC's malloc/free (allocation succeeds; failure is C07's subject).
//! ASSUME: the count word is preset through the cfg(triomphe_verif) hook; other owners (c-k of
//!   them) are the environment and do nothing during the step.
//! OUTSIDE: concurrency (C02); panics/unwinding (C07); payload shapes and lengths not listed.
use crate::ghost::*;
use crate::kinds::*;
use core::mem::{forget, ManuallyDrop};
use triomphe::*;

macro_rules! h {
    ($name:ident, $unw:expr, $body:expr) => {
        #[kani::proof]
        #[kani::unwind($unw)]
        #[kani::stub(std::alloc::alloc, alloc_stub)]
        #[kani::stub(alloc::alloc::dealloc_nonnull, dealloc_stub)]
        #[kani::stub(std::thread::panicking, panicking_stub)]
        fn $name() {
            crate::ghost::arm();
            $body;
            kani::cover!(true, "end of harness reached");
        }
    };
}
macro_rules! steps {
    ($clone:ident, $drop:ident, $cdd:ident, $unw:expr, $k:ty, $mk:expr) => {
        h!($clone, $unw, {
            let (a, n) = $mk;
            step_clone::<$k>(a, n)
        });
        h!($drop, $unw, {
            let (a, n) = $mk;
            step_drop::<$k>(a, n)
        });
        h!($cdd, $unw, {
            let (a, n) = $mk;
            step_clone_drop_drop::<$k>(a, n)
        });
    };
}
macro_rules! steps2 {
    ($clone:ident, $drop:ident, $unw:expr, $k:ty, $mk:expr) => {
        h!($clone, $unw, {
            let (a, n) = $mk;
            step_clone::<$k>(a, n)
        });
        h!($drop, $unw, {
            let (a, n) = $mk;
            step_drop::<$k>(a, n)
        });
    };
}
macro_rules! conv {
    ($name:ident, $unw:expr, $k:ty, $k2:ty, $mk:expr) => {
        h!($name, $unw, {
            let (a, n) = $mk;
            step_convert::<$k, $k2>(a, n)
        });
    };
}

// ---- sized, Drop-tracked payload: every kind
steps!(q_clone_arc_dt, q_drop_arc_dt, q_cdd_arc_dt, 5, Arc<Dt>, mk_dt());
steps!(q_clone_offset_dt, q_drop_offset_dt, q_cdd_offset_dt, 5, OffsetArc<Dt>, mk_dt());
// (clone then two releases is split by release order for the unions: one symbolic-order harness needs > 20 GB)
steps2!(q_clone_union1_dt, q_drop_union1_dt, 5, U1<Dt>, mk_dt());
h!(q_cdd_union1_dt_a, 5, {
    let (a, n) = mk_dt();
    step_cdd::<U1<Dt>>(a, n, true)
});
h!(r1_cdd_union1_dt_b, 5, {
    let (a, n) = mk_dt();
    step_cdd::<U1<Dt>>(a, n, false)
});
steps2!(q_clone_union2_dt, q_drop_union2_dt, 5, U2<Dt>, mk_dt());
h!(q_cdd_union2_dt_b, 5, {
    let (a, n) = mk_dt();
    step_cdd::<U2<Dt>>(a, n, false)
});
h!(r2_cdd_union2_dt_a, 5, {
    let (a, n) = mk_dt();
    step_cdd::<U2<Dt>>(a, n, true)
});
steps!(q_clone_raw_dt, q_drop_raw_dt, q_cdd_raw_dt, 5, Raw<Dt>, mk_dt());
steps!(q_clone_swap_dt, q_drop_swap_dt, q_cdd_swap_dt, 5, Swp<Dt>, mk_dt());
// ---- over-aligned payload
steps!(r0_clone_arc_a32, r0_drop_arc_a32, r0_cdd_arc_a32, 5, Arc<S33a32>, mk_a32());
steps!(r1_clone_offset_a32, r1_drop_offset_a32, r1_cdd_offset_a32, 5, OffsetArc<S33a32>, mk_a32());
steps!(r2_clone_union2_a32, r2_drop_union2_a32, r2_cdd_union2_a32, 5, U2<S33a32>, mk_a32());
steps!(r0_clone_raw_a32, r0_drop_raw_a32, r0_cdd_raw_a32, 5, Raw<S33a32>, mk_a32());
// ---- header + slice (fat and thin)
steps!(q_clone_arc_hs, q_drop_arc_hs, q_cdd_arc_hs, 5, Arc<HS<Dt, Dt>>, mk_hs_n::<2>());
steps!(q_clone_thin_hs, q_drop_thin_hs, q_cdd_thin_hs, 5, ThinArc<Dt, Dt>, mk_hs_n::<2>());
steps!(q_clone_rawthin_hs, q_drop_rawthin_hs, q_cdd_rawthin_hs, 5, RawThin<Dt, Dt>, mk_hs_n::<2>());
steps!(q_clone_swapthin_hs, r0_drop_swapthin_hs, r1_cdd_swapthin_hs, 5, SwpThin<Dt, Dt>, mk_hs_n::<1>());
steps!(t_clone_thin_hs3, t_drop_thin_hs3, t_cdd_thin_hs3, 5, ThinArc<Dt, Dt>, mk_hs_n::<3>());
steps!(t_clone_arc_hs3, t_drop_arc_hs3, t_cdd_arc_hs3, 5, Arc<HS<Dt, Dt>>, mk_hs_n::<3>());
// ---- slice / str / dyn
steps!(q_clone_arc_slice, q_drop_arc_slice, q_cdd_arc_slice, 5, Arc<[Dt]>, mk_slice_n::<2>());
steps!(q_clone_rawu_slice, q_drop_rawu_slice, q_cdd_rawu_slice, 5, RawU<[Dt]>, mk_slice_n::<2>());
steps!(r1_clone_arc_str, r1_drop_arc_str, r1_cdd_arc_str, 5, Arc<str>, mk_str_n::<3>());
steps!(q_clone_arc_dyn, q_drop_arc_dyn, q_cdd_arc_dyn, 5, Arc<dyn Tr>, mk_dyn());
steps!(r2_clone_rawu_dyn, r2_drop_rawu_dyn, r2_cdd_rawu_dyn, 5, RawU<dyn Tr>, mk_dyn());
steps!(t_clone_arc_slice3, t_drop_arc_slice3, t_cdd_arc_slice3, 5, Arc<[Dt]>, mk_slice_n::<3>());

// ---- conversions between kinds (count-neutral, consume the source)
conv!(q_conv_arc_offset_dt, 5, Arc<Dt>, OffsetArc<Dt>, mk_dt());
conv!(q_conv_offset_union1_dt, 5, OffsetArc<Dt>, U1<Dt>, mk_dt());
conv!(q_conv_union2_raw_dt, 5, U2<Dt>, Raw<Dt>, mk_dt());
conv!(q_conv_raw_swap_dt, 5, Raw<Dt>, Swp<Dt>, mk_dt());
conv!(q_conv_arc_thin_hs, 5, Arc<HS<Dt, Dt>>, ThinArc<Dt, Dt>, mk_hs_n::<2>());
conv!(q_conv_thin_rawthin_hs, 5, ThinArc<Dt, Dt>, RawThin<Dt, Dt>, mk_hs_n::<2>());
conv!(r0_conv_offset_a32, 5, OffsetArc<S33a32>, Raw<S33a32>, mk_a32());
conv!(r1_conv_arc_rawu_slice, 5, Arc<[Dt]>, RawU<[Dt]>, mk_slice_n::<2>());
conv!(r2_conv_arc_rawu_dyn, 5, Arc<dyn Tr>, RawU<dyn Tr>, mk_dyn());

// ---- through UniqueArc and back, and out by value
h!(q_unique_paths_dt, 5, {
    let (a, n) = mk_dt();
    let (st, h) = enter::<Arc<Dt>>(a, n);
    match Arc::try_unique(h) {
        Ok(u) => {
            assert!(st.c == 1);
            let back = u.shareable();
            st.alive(1);
            // out by value: the block goes back once, the value is destroyed once by its new owner
            let v = Arc::try_unwrap(back).ok().expect("sole owner");
            assert!(ledger_zero() && block_of(st.block).is_none() && n_live() == st.live0 - 1, "value destroyed or block not returned on the move-out path");
            drop(v);
            assert!(ledger_is(0, 1));
        }
        Err(back) => {
            assert!(st.c != 1);
            st.alive(st.c);
            forget(back);
        }
    }
    st.covers();
});
h!(q_unique_new_drop_dt, 5, {
    let u = UniqueArc::new(Dt::new(0, kani::any()));
    assert!(n_live() == 1 && ledger_zero());
    drop(u);
    assert!(ledger_is(0, 1) && n_live() == 0);
    let u = UniqueArc::new(Dt::new(1, kani::any()));
    let v = UniqueArc::into_inner(u);
    assert!(n_live() == 0 && drops(1) == 0, "into_inner must release the block and hand the value out undestroyed");
    drop(v);
    assert!(drops(1) == 1);
});

// ------------------------------------------------------------------ bounded symbolic histories (DESIGN 4.2)
// Two slots holding handles of symbolic kinds to ONE allocation; each step is a symbolic choice among
// clone-into-the-other-slot / convert-in-place / release / uniqueness probe. After every step the count
// word must equal the number of occupied slots, the payload must be intact, and when the last slot is
// emptied the value is destroyed and the block returned exactly once. Guards against the inductive
// invariant being too weak (a "time bomb" left by one operation for a later one).
enum Slot {
    Empty,
    A(Arc<Dt>),
    O(OffsetArc<Dt>),
    R(*const Dt),
}
impl Slot {
    fn occupied(&self) -> bool {
        !matches!(self, Slot::Empty)
    }
    fn into_arc(self) -> Arc<Dt> {
        match self {
            Slot::A(a) => a,
            Slot::O(o) => Arc::from_raw_offset(o),
            Slot::R(p) => unsafe { Arc::from_raw(p) },
            Slot::Empty => unreachable!(),
        }
    }
    fn from_arc(a: Arc<Dt>, kind: u8) -> Slot {
        match kind {
            0 => Slot::A(a),
            1 => Slot::O(Arc::into_raw_offset(a)),
            _ => Slot::R(Arc::into_raw(a)),
        }
    }
    fn dup(&self, kind: u8) -> Slot {
        let a = match self {
            Slot::A(a) => a.clone(),
            Slot::O(o) => o.clone_arc(),
            Slot::R(p) => unsafe { ArcBorrow::from_ptr(*p) }.clone_arc(),
            Slot::Empty => unreachable!(),
        };
        Slot::from_arc(a, kind)
    }
}
fn history<const STEPS: usize>() {
    let v: u8 = kani::any();
    let a = Arc::new(Dt::new(0, v));
    let w = ManuallyDrop::new(unsafe { core::ptr::read(&a) });
    let blk = a.heap_ptr() as usize;
    let mut s0 = Slot::A(a);
    let mut s1 = Slot::Empty;
    let mut alive = true;
    let mut step = 0;
    while step < STEPS {
        if !alive {
            break;
        }
        let op: u8 = kani::any();
        let kind: u8 = kani::any();
        kani::assume(op < 4 && kind < 3);
        let first: bool = kani::any();
        // (src, dst) chosen symbolically
        let (src, dst) = if first { (&mut s0, &mut s1) } else { (&mut s1, &mut s0) };
        if src.occupied() {
            match op {
                0 => {
                    if !dst.occupied() {
                        *dst = src.dup(kind);
                    }
                }
                1 => {
                    let h = core::mem::replace(src, Slot::Empty);
                    *src = Slot::from_arc(h.into_arc(), kind);
                }
                2 => {
                    let h = core::mem::replace(src, Slot::Empty);
                    drop(h.into_arc());
                }
                _ => {
                    // uniqueness probe: verdict must be "the other slot is empty"
                    let other_empty = !dst.occupied();
                    let h = core::mem::replace(src, Slot::Empty);
                    let mut arc = h.into_arc();
                    assert!(Arc::get_mut(&mut arc).is_some() == other_empty, "uniqueness verdict differs from the number of owners");
                    *src = Slot::from_arc(arc, kind);
                }
            }
        }
        let n = s0.occupied() as usize + s1.occupied() as usize;
        if n == 0 {
            alive = false;
            assert!(ledger_is(0, 1), "value not destroyed exactly once when the last handle went");
            assert!(block_of(blk).is_none() && n_live() == 0, "block not returned exactly once");
        } else {
            assert!(raw_count(&w) == n, "count differs from the number of owning handles");
            assert!(ledger_zero() && block_of(blk).is_some(), "destroyed or freed while owners remain");
            assert!(w.v == v, "payload changed");
        }
        step += 1;
    }
    kani::cover!(!alive, "history that releases everything");
    kani::cover!(alive && s0.occupied() && s1.occupied(), "history that ends with two owners");
    // release what is left
    if s0.occupied() {
        drop(core::mem::replace(&mut s0, Slot::Empty).into_arc());
    }
    if s1.occupied() {
        drop(core::mem::replace(&mut s1, Slot::Empty).into_arc());
    }
    assert!(ledger_is(0, 1) && n_live() == 0, "after releasing every handle the value must be destroyed once and the block returned");
}
h!(q_history_3, 5, history::<3>());
h!(t_history_4, 6, history::<4>());
h!(t_history_2, 4, history::<2>());

// the same over the thin/fat pair: {fat Arc, ThinArc, raw thin pointer} to one header+slice allocation
enum TSlot {
    Empty,
    F(Arc<HS<Dt, Dt>>),
    T(ThinArc<Dt, Dt>),
    R(*const core::ffi::c_void),
}
impl TSlot {
    fn occupied(&self) -> bool {
        !matches!(self, TSlot::Empty)
    }
    fn into_fat(self) -> Arc<HS<Dt, Dt>> {
        match self {
            TSlot::F(a) => a,
            TSlot::T(t) => Arc::from_thin(t),
            TSlot::R(p) => Arc::from_thin(unsafe { ThinArc::from_raw(p) }),
            TSlot::Empty => unreachable!(),
        }
    }
    fn from_fat(a: Arc<HS<Dt, Dt>>, kind: u8) -> TSlot {
        match kind {
            0 => TSlot::F(a),
            1 => TSlot::T(Arc::into_thin(a)),
            _ => TSlot::R(Arc::into_thin(a).into_raw()),
        }
    }
    fn dup(&self, kind: u8) -> TSlot {
        let a = match self {
            TSlot::F(a) => a.clone(),
            TSlot::T(t) => Arc::from_thin(t.clone()),
            TSlot::R(p) => {
                let t = ManuallyDrop::new(unsafe { ThinArc::<Dt, Dt>::from_raw(*p) });
                Arc::from_thin((*t).clone())
            }
            TSlot::Empty => unreachable!(),
        };
        TSlot::from_fat(a, kind)
    }
}
fn thin_history<const STEPS: usize>() {
    let (a, n) = mk_hs_n::<1>();
    let w = ManuallyDrop::new(unsafe { core::ptr::read(&a) });
    let blk = a.heap_ptr() as usize;
    let sig = w.sig();
    let mut s0 = TSlot::F(a);
    let mut s1 = TSlot::Empty;
    let mut alive = true;
    let mut step = 0;
    while step < STEPS {
        if !alive {
            break;
        }
        let op: u8 = kani::any();
        let kind: u8 = kani::any();
        kani::assume(op < 3 && kind < 3);
        let first: bool = kani::any();
        let (src, dst) = if first { (&mut s0, &mut s1) } else { (&mut s1, &mut s0) };
        if src.occupied() {
            match op {
                0 => {
                    if !dst.occupied() {
                        *dst = src.dup(kind);
                    }
                }
                1 => {
                    let h = core::mem::replace(src, TSlot::Empty);
                    *src = TSlot::from_fat(h.into_fat(), kind);
                }
                _ => {
                    let h = core::mem::replace(src, TSlot::Empty);
                    drop(h.into_fat());
                }
            }
        }
        let k = s0.occupied() as usize + s1.occupied() as usize;
        if k == 0 {
            alive = false;
            assert!(ledger_is(0, n), "header and elements not destroyed exactly once when the last handle went");
            assert!(block_of(blk).is_none() && n_live() == 0, "block not returned exactly once");
        } else {
            assert!(raw_count(&w) == k, "count differs from the number of owning handles");
            assert!(ledger_zero() && block_of(blk).is_some());
            assert!(w.sig() == sig && w.header.length == 1 && w.slice.len() == 1, "payload or recorded length changed");
        }
        step += 1;
    }
    kani::cover!(!alive, "history that releases everything");
    kani::cover!(alive && s0.occupied() && s1.occupied(), "history that ends with two owners");
    if s0.occupied() {
        drop(core::mem::replace(&mut s0, TSlot::Empty).into_fat());
    }
    if s1.occupied() {
        drop(core::mem::replace(&mut s1, TSlot::Empty).into_fat());
    }
    assert!(ledger_is(0, n) && n_live() == 0);
}
h!(t_thin_history_3, 5, thin_history::<3>());
h!(t_thin_history_2, 4, thin_history::<2>());


// ---- handles made from a Box: the value moves into the shared block (no copy survives in the Box, whose
//      own storage - if it has any - is released exactly once) and then lives as long as the handle does
static mut ZB1_DROPS: u8 = 0;
struct ZBox1;
impl Drop for ZBox1 {
    fn drop(&mut self) {
        unsafe { ZB1_DROPS += 1 };
    }
}
h!(q_from_box_lifetimes, 5, {
    let v: u8 = kani::any();
    let a: Arc<Dt> = Arc::from(Box::new(Dt::new(0, v)));
    assert!(ledger_zero() && a.v == v && n_live() == 1, "From<Box<T>>: value destroyed early, or the Box's storage kept");
    let b = a.clone();
    drop(a);
    assert!(ledger_zero() && b.v == v, "the value must outlive every handle but the last");
    drop(b);
    assert!(ledger_is(0, 1) && n_live() == 0, "the value is destroyed exactly once, with the last handle, and no block leaks");
    // a Box of a zero-sized value owns no storage: nothing of it may reach the allocator
    let z: Arc<ZBox1> = Arc::from(Box::new(ZBox1));
    assert!(unsafe { ZB1_DROPS } == 0 && n_live() == 1);
    drop(z);
    assert!(unsafe { ZB1_DROPS } == 1 && n_live() == 0);
});


// ---- unsizing a UniqueArc (unsize feature) neither destroys nor duplicates the value
h!(q_unique_unsize_lifetimes, 5, {
    let v: u8 = kani::any();
    let u = UniqueArc::new([Dt::new(0, v), Dt::new(1, v)]);
    let us: UniqueArc<[Dt]> = unsize::CoerceUnsize::unsize(u, unsize::Coercion::to_slice());
    assert!(ledger_zero() && n_live() == 1, "unsizing destroyed the value or its block");
    assert!(us.len() == 2 && us[0].v == v && us[1].id == 1);
    let a = us.shareable();
    let b = a.clone();
    drop(a);
    assert!(ledger_zero() && b[1].v == v);
    drop(b);
    assert!(ledger_is(0, 2) && n_live() == 0, "each element is destroyed exactly once, with the last handle");
});
// ---- zero-sized elements that own something, moved in through the Vec path: destroyed once, with the allocation
static mut ZV_DROPS: usize = 0;
struct ZV;
impl Drop for ZV {
    fn drop(&mut self) {
        unsafe { ZV_DROPS += 1 };
    }
}
h!(q_zst_owning_elements_vec, 6, {
    let mut v = Vec::new();
    v.push(ZV);
    v.push(ZV);
    let a: Arc<[ZV]> = Arc::from(v);
    assert!(unsafe { ZV_DROPS } == 0, "zero-sized elements destroyed while the Arc owns them");
    assert!(a.len() == 2);
    let b = a.clone();
    drop(a);
    assert!(unsafe { ZV_DROPS } == 0);
    drop(b);
    assert!(unsafe { ZV_DROPS } == 2 && n_live() == 0, "each zero-sized element is destroyed exactly once");
});

// ---- a re-entrant `T::clone`: the user's Clone releases ANOTHER owning handle of the same allocation while
//      make_mut / make_unique / unwrap_or_clone is between its uniqueness test and its own release. The handle
//      being replaced is then the last owner: the old value must be destroyed exactly once and its block freed.
static mut SIBLING: Option<Arc<Reent>> = None;
struct Reent(Dt);
impl Clone for Reent {
    fn clone(&self) -> Reent {
        let s = unsafe { (*core::ptr::addr_of_mut!(SIBLING)).take() };
        drop(s);
        Reent(self.0.clone())
    }
}
h!(q_reentrant_clone_releases_sibling, 5, {
    let which: u8 = kani::any();
    kani::assume(which < 3);
    let v: u8 = kani::any();
    let mut a = Arc::new(Reent(Dt::new(0, v)));
    unsafe { *core::ptr::addr_of_mut!(SIBLING) = Some(a.clone()) };
    assert!(Arc::count(&a) == 2 && n_live() == 1);
    if which == 0 {
        let r = Arc::make_mut(&mut a);
        assert!(r.0.id == 8 && r.0.v == v, "make_mut: not a copy of the old value");
    } else if which == 1 {
        let u = Arc::make_unique(&mut a);
        assert!(u.0.id == 8 && u.0.v == v);
    } else {
        let r = Arc::unwrap_or_clone(a);
        assert!(r.0.id == 8 && r.0.v == v);
        a = Arc::new(r);
    }
    assert!(drops(0) == 1, "the old value lost its last owner during the operation: it must be destroyed exactly once");
    assert!(n_live() == 1 && nalloc() == 2, "the old block must be freed (exactly once) when its last owner is replaced");
    assert!(Arc::count(&a) == 1);
    drop(a);
    assert!(drops(8) == 1 && n_live() == 0);
    kani::cover!(which == 0);
    kani::cover!(which == 2);
});
