//! C09 (sequential half) — unwrapping conserves the value.
//!
//! BOUNDS: one call of try_unwrap / try_unique+into_inner / UniqueArc::into_inner /
//!   unwrap_or_clone / TryFrom from an arbitrary valid state (count free in [1, isize::MAX-2]);
//!   Drop/Clone-tracked payload with symbolic content, plus an over-aligned payload.
//! BOUNDS: (real_history_*) a short history with no preset count: the co-owner is made, cloned and released through
//!   another kind's own operations (OffsetArc, ArcUnion either arm, raw pointer, arc-swap pointer).
//! ASSUME: alloc/dealloc logging stubs; count preset through the hook.
//! OUTSIDE: racing unwrappers (weak-memory engine).
use crate::ghost::*;
use crate::kinds::*;
use core::convert::TryFrom;
use core::mem::{forget, ManuallyDrop};
use triomphe::*;

macro_rules! h {
    ($name:ident, $body:expr) => {
        #[kani::proof]
        #[kani::unwind(5)]
        #[kani::stub(std::alloc::alloc, alloc_stub)]
        #[kani::stub(alloc::alloc::dealloc_nonnull, dealloc_stub)]
        #[kani::stub(core::sync::atomic::atomic_compare_exchange_weak, cas_weak_stub)]
        fn $name() {
            crate::ghost::arm();
            $body;
            kani::cover!(true, "end of harness reached");
        }
    };
}

h!(q_try_unwrap, {
    let (a, n) = mk_dt();
    let v0 = a.v;
    let (st, h) = enter::<Arc<Dt>>(a, n);
    match Arc::try_unwrap(h) {
        Ok(val) => {
            assert!(st.c == 1, "value moved out while other owners exist");
            assert!(ledger_zero(), "destructor ran on the value that was handed out");
            assert!(val.v == v0 && val.id == 0);
            assert!(block_of(st.block).is_none(), "allocation not released after the move-out");
            assert!(n_live() == st.live0 - 1);
            drop(val);
            assert!(ledger_is(0, 1), "returned value must be destroyed exactly once, by its new owner");
        }
        Err(back) => {
            assert!(st.c != 1, "sole owner was refused");
            assert!(back.heap_ptr() as usize == st.block, "Err carries a different handle");
            st.alive(st.c);
            forget(back);
        }
    }
    st.covers();
});

h!(q_try_unique_into_inner, {
    let (a, n) = mk_dt();
    let v0 = a.v;
    let (st, h) = enter::<Arc<Dt>>(a, n);
    match Arc::try_unique(h) {
        Ok(u) => {
            assert!(st.c == 1);
            let val = UniqueArc::into_inner(u);
            assert!(ledger_zero());
            assert!(val.v == v0);
            assert!(block_of(st.block).is_none() && n_live() == st.live0 - 1);
            drop(val);
            assert!(ledger_is(0, 1));
        }
        Err(back) => {
            assert!(st.c != 1);
            assert!(Arc::ptr_eq(&back, &st.w));
            st.alive(st.c);
            forget(back);
        }
    }
    st.covers();
});

h!(q_unique_into_inner, {
    let v: u8 = kani::any();
    let u = UniqueArc::new(Dt::new(0, v));
    let blk = (&*u as *const Dt as usize);
    assert!(n_live() == 1);
    let val = UniqueArc::into_inner(u);
    assert!(ledger_zero() && val.v == v);
    assert!(n_live() == 0 && ndealloc() == 1, "block must be released exactly once");
    drop(val);
    assert!(ledger_is(0, 1));
});

h!(q_unique_into_inner_overaligned, {
    let x: [u8; 33] = kani::any();
    let u = UniqueArc::new(S33a32(x));
    let val = UniqueArc::into_inner(u);
    assert!(val.0[0] == x[0] && val.0[32] == x[32]);
    assert!(n_live() == 0 && ndealloc() == 1);
});

h!(q_unwrap_or_clone, {
    let (a, n) = mk_dt();
    let v0 = a.v;
    let (st, h) = enter::<Arc<Dt>>(a, n);
    let val = Arc::unwrap_or_clone(h);
    assert!(val.v == v0);
    if st.c == 1 {
        assert!(val.id == 0 && clones() == 0, "sole owner: the value itself must come back, not a clone");
        assert!(ledger_zero());
        assert!(block_of(st.block).is_none() && n_live() == st.live0 - 1);
        drop(val);
        assert!(ledger_is(0, 1));
    } else {
        assert!(val.id == 8 && clones() == 1, "shared: exactly one clone comes back");
        st.alive(st.c - 1);
        drop(val);
        assert!(drops(8) == 1 && drops(0) == 0);
    }
    st.covers();
});

h!(q_try_from_conserves, {
    let (a, n) = mk_dt();
    let (st, h) = enter::<Arc<Dt>>(a, n);
    match UniqueArc::try_from(h) {
        Ok(u) => {
            assert!(st.c == 1);
            st.alive(1);
            drop(u);
            st.destroyed();
        }
        Err(back) => {
            assert!(st.c != 1 && Arc::ptr_eq(&back, &st.w));
            st.alive(st.c);
            forget(back);
        }
    }
    st.covers();
});

// co-owner of another kind: try_unwrap is refused and the co-owner still reads the value
fn refused_with_coowner<K2: Kind<P = Dt>>() {
    let (a, n) = mk_dt();
    let v0 = a.v;
    let other = K2::from_arc(a.clone());
    match Arc::try_unwrap(a) {
        Ok(_) => assert!(false, "try_unwrap succeeded while a co-owner of another kind exists"),
        Err(back) => {
            assert!(Arc::count(&back) == 2);
            assert!(other.data_addr() == Arc::as_ptr(&back) as usize);
            drop(back);
        }
    }
    assert!(ledger_zero());
    assert!(unsafe { (*(other.data_addr() as *const Dt)).v } == v0);
    assert!(other.count() == 1);
    other.release();
    assert!(ledger_is(0, 1) && n_live() == 0);
}
h!(q_refused_coowner_offset, refused_with_coowner::<OffsetArc<Dt>>());
h!(q_refused_coowner_raw, refused_with_coowner::<Raw<Dt>>());
h!(r0_refused_coowner_union2, refused_with_coowner::<U2<Dt>>());
h!(r1_refused_coowner_union1, refused_with_coowner::<U1<Dt>>());
h!(r2_refused_coowner_swap, refused_with_coowner::<Swp<Dt>>());


// ---- no preset count: the other owner is a real handle of another kind, made / cloned / released through that
//      kind's own operations. While it exists the value is not handed out; once it is gone it is, undestroyed.
fn unwrap_real_history<K: Kind<P = Dt>>() {
    let v: u8 = kani::any();
    let a = Arc::new(Dt::new(0, v));
    let o1 = K::from_arc(a.clone());
    let other = o1.dup();
    o1.release();
    // owners: a, other
    let a = match Arc::try_unwrap(a) {
        Ok(_) => panic!("try_unwrap moved the value out although a handle of another kind still owns it"),
        Err(a) => a,
    };
    let val = Arc::unwrap_or_clone(a);
    assert!(clones() == 1 && val.v == v, "unwrap_or_clone on a shared value must clone, exactly once");
    assert!(ledger_zero(), "the shared value was destroyed although a handle of another kind still owns it");
    assert!(other.count() == 1 && unsafe { (*(other.data_addr() as *const Dt)).v } == v);
    // now the other kind's handle is the sole owner: back to an Arc, and out
    let back = other.into_arc();
    match Arc::try_unwrap(back) {
        Ok(orig) => {
            assert!(orig.v == v && orig.id == 0 && ledger_zero(), "the value handed out was destroyed or is not the original");
            assert!(n_live() == 0, "the allocation must be released when the value is moved out");
        }
        Err(_) => panic!("a sole owner was refused"),
    }
}
h!(q_real_history_offset, unwrap_real_history::<OffsetArc<Dt>>());
h!(q_real_history_union2, unwrap_real_history::<U2<Dt>>());
h!(r0_real_history_raw, unwrap_real_history::<Raw<Dt>>());
h!(r1_real_history_union1, unwrap_real_history::<U1<Dt>>());
h!(q_real_history_swap, unwrap_real_history::<Swp<Dt>>());

// ---- a zero-sized value that owns something is handed out undestroyed too
static mut ZU_DROPS: usize = 0;
struct ZU;
impl Drop for ZU {
    fn drop(&mut self) {
        unsafe { ZU_DROPS += 1 };
    }
}
impl Clone for ZU {
    fn clone(&self) -> ZU {
        ZU
    }
}
h!(q_unwrap_zst_owned, {
    let z = match Arc::try_unwrap(Arc::new(ZU)) {
        Ok(z) => z,
        Err(_) => panic!("a sole owner was refused"),
    };
    assert!(unsafe { ZU_DROPS } == 0 && n_live() == 0, "zero-sized value destroyed although it was handed out (or its block kept)");
    drop(z);
    assert!(unsafe { ZU_DROPS } == 1);
    let z = UniqueArc::into_inner(UniqueArc::new(ZU));
    assert!(unsafe { ZU_DROPS } == 1 && n_live() == 0);
    drop(z);
    let z = Arc::unwrap_or_clone(Arc::new(ZU));
    assert!(unsafe { ZU_DROPS } == 2 && n_live() == 0);
    drop(z);
    assert!(unsafe { ZU_DROPS } == 3);
});
