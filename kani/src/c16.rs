//! C16 — reference-count overflow terminates the process instead of wrapping.
//!
//! One harness per clone entry point. The starting count is a fully symbolic 64-bit word
//! (stored through the cfg(triomphe_verif) hook); `std::process::abort` is stubbed by a function
//! that records the call and ends the path. A *panic* anywhere is a failed check.
use crate::ghost::*;
use triomphe::*;

const LIMIT: usize = isize::MAX as usize;

/// Run `clone_op` (which performs exactly one clone-style call and forgets the result) on an
/// allocation whose count word holds an arbitrary value, and assert the C16 contract.
fn overflow_contract<T: ?Sized>(a: &Arc<T>, clone_op: impl FnOnce()) {
    let c: usize = kani::any();
    kani::assume(c >= 1);
    set_count(a, c);
    clone_op();
    // Only reachable when the clone returned normally (the abort stub ends the path).
    assert!(unsafe { !ABORTED });
    assert!(c <= LIMIT, "clone returned although the count had passed the limit");
    assert!(raw_count(a) == c.wrapping_add(1), "a successful clone adds exactly one");
    kani::cover!(c == LIMIT, "largest count that must still succeed");
    kani::cover!(c == 1, "ordinary count");
}

/// Twin of the above used to show that the abort path is reached exactly above the limit:
/// the stub records the starting count at which it was called.
pub static mut ABORT_SEEN_AT: usize = 0;
pub static mut START_COUNT: usize = 0;
pub fn abort_stub_checked() -> ! {
    unsafe {
        // abort may only be reached once the count had reached the limit
        assert!(START_COUNT > LIMIT, "abort reached although the count had not passed the limit (isize::MAX itself must still succeed)");
        kani::cover!(START_COUNT == LIMIT + 1, "abort reached just above the limit");
        kani::cover!(START_COUNT == usize::MAX, "abort reached at usize::MAX");
    }
    kani::assume(false);
    loop {}
}
fn abort_contract<T: ?Sized>(a: &Arc<T>, clone_op: impl FnOnce()) {
    let c: usize = kani::any();
    kani::assume(c >= 1);
    unsafe { START_COUNT = c };
    set_count(a, c);
    clone_op();
    assert!(c <= LIMIT, "clone returned although the count had passed the limit");
}


// A uniform way to get at "the Arc whose count word we preset" for every handle kind: each
// harness keeps a plain `Arc` witness to the same allocation (not counted in `c`, the count word is
// overwritten after it was made).

trait Tr {
    fn v(&self) -> u8;
}
impl Tr for u16 {
    fn v(&self) -> u8 {
        *self as u8
    }
}

#[kani::proof]
#[kani::unwind(4)]
#[kani::stub(std::process::abort, abort_stub)]
fn q_ok_arc_sized() {
    crate::ghost::arm();
    let a = Arc::new(7u32);
    overflow_contract(&a, || core::mem::forget(a.clone()));
    core::mem::forget(a);
}
#[kani::proof]
#[kani::unwind(4)]
#[kani::stub(std::process::abort, abort_stub_checked)]
fn q_abort_arc_sized() {
    crate::ghost::arm();
    let a = Arc::new(7u32);
    abort_contract(&a, || core::mem::forget(a.clone()));
    core::mem::forget(a);
}

#[kani::proof]
#[kani::unwind(4)]
#[kani::stub(std::process::abort, abort_stub)]
fn q_ok_arc_slice() {
    crate::ghost::arm();
    let a: Arc<[u16]> = Arc::from(&[1u16, 2][..]);
    overflow_contract(&a, || core::mem::forget(a.clone()));
    core::mem::forget(a);
}
#[kani::proof]
#[kani::unwind(4)]
#[kani::stub(std::process::abort, abort_stub_checked)]
fn q_abort_arc_slice() {
    crate::ghost::arm();
    let a: Arc<[u16]> = Arc::from(&[1u16, 2][..]);
    abort_contract(&a, || core::mem::forget(a.clone()));
    core::mem::forget(a);
}

fn mk_dyn() -> Arc<dyn Tr> {
    let a = Arc::new(9u16);
    let p = Arc::into_raw(a);
    unsafe { Arc::from_raw(p as *const dyn Tr) }
}
#[kani::proof]
#[kani::unwind(4)]
#[kani::stub(std::process::abort, abort_stub)]
fn q_ok_arc_dyn() {
    crate::ghost::arm();
    let a = mk_dyn();
    overflow_contract(&a, || core::mem::forget(a.clone()));
    core::mem::forget(a);
}
#[kani::proof]
#[kani::unwind(4)]
#[kani::stub(std::process::abort, abort_stub_checked)]
fn q_abort_arc_dyn() {
    crate::ghost::arm();
    let a = mk_dyn();
    abort_contract(&a, || core::mem::forget(a.clone()));
    core::mem::forget(a);
}

// ---- ThinArc
#[kani::proof]
#[kani::unwind(4)]
#[kani::stub(std::process::abort, abort_stub)]
fn q_ok_thin() {
    crate::ghost::arm();
    let t = ThinArc::from_header_and_slice(3u8, &[1u16, 2]);
    let w = core::mem::ManuallyDrop::new(Arc::from_thin(unsafe { core::ptr::read(&t) }));
    overflow_contract(&*w, || core::mem::forget(t.clone()));
    core::mem::forget(t);
}
#[kani::proof]
#[kani::unwind(4)]
#[kani::stub(std::process::abort, abort_stub_checked)]
fn q_abort_thin() {
    crate::ghost::arm();
    let t = ThinArc::from_header_and_slice(3u8, &[1u16, 2]);
    let w = core::mem::ManuallyDrop::new(Arc::from_thin(unsafe { core::ptr::read(&t) }));
    abort_contract(&*w, || core::mem::forget(t.clone()));
    core::mem::forget(t);
}
// clone made inside ThinArc::with_arc
#[kani::proof]
#[kani::unwind(4)]
#[kani::stub(std::process::abort, abort_stub)]
fn q_ok_thin_with_arc() {
    crate::ghost::arm();
    let t = ThinArc::from_header_and_slice(3u8, &[1u16, 2]);
    let w = core::mem::ManuallyDrop::new(Arc::from_thin(unsafe { core::ptr::read(&t) }));
    overflow_contract(&*w, || t.with_arc(|a| core::mem::forget(a.clone())));
    core::mem::forget(t);
}
#[kani::proof]
#[kani::unwind(4)]
#[kani::stub(std::process::abort, abort_stub_checked)]
fn q_abort_thin_with_arc() {
    crate::ghost::arm();
    let t = ThinArc::from_header_and_slice(3u8, &[1u16, 2]);
    let w = core::mem::ManuallyDrop::new(Arc::from_thin(unsafe { core::ptr::read(&t) }));
    abort_contract(&*w, || t.with_arc(|a| core::mem::forget(a.clone())));
    core::mem::forget(t);
}

// ---- OffsetArc (clone, clone_arc, clone inside with_arc), Arc::with_raw_offset_arc
macro_rules! offset_family {
    ($ok:ident, $ab:ident, |$o:ident, $a:ident| $op:expr) => {
        #[kani::proof]
#[kani::unwind(4)]
        #[kani::stub(std::process::abort, abort_stub)]
        fn $ok() {
            crate::ghost::arm();
            let $a = Arc::new(0x55aau16);
            let $o = core::mem::ManuallyDrop::new(Arc::into_raw_offset(unsafe { core::ptr::read(&$a) }));
            overflow_contract(&$a, || $op);
            core::mem::forget($a);
        }
        #[kani::proof]
#[kani::unwind(4)]
        #[kani::stub(std::process::abort, abort_stub_checked)]
        fn $ab() {
            crate::ghost::arm();
            let $a = Arc::new(0x55aau16);
            let $o = core::mem::ManuallyDrop::new(Arc::into_raw_offset(unsafe { core::ptr::read(&$a) }));
            abort_contract(&$a, || $op);
            core::mem::forget($a);
        }
    };
}
offset_family!(q_ok_offset_clone, q_abort_offset_clone, |o, a| core::mem::forget(o.clone()));
offset_family!(q_ok_offset_clone_arc, q_abort_offset_clone_arc, |o, a| core::mem::forget(o.clone_arc()));
offset_family!(q_ok_offset_with_arc, q_abort_offset_with_arc, |o, a| o.with_arc(|x| core::mem::forget(x.clone())));
offset_family!(q_ok_with_raw_offset_arc, q_abort_with_raw_offset_arc, |o, a| a
    .with_raw_offset_arc(|x| core::mem::forget(x.clone())));
offset_family!(q_ok_borrow_clone_arc, q_abort_borrow_clone_arc, |o, a| core::mem::forget(a.borrow_arc().clone_arc()));
offset_family!(q_ok_borrow_with_arc, q_abort_borrow_with_arc, |o, a| a
    .borrow_arc()
    .with_arc(|x| core::mem::forget(x.clone())));
offset_family!(q_ok_offset_borrow_clone_arc, q_abort_offset_borrow_clone_arc, |o, a| core::mem::forget(
    o.borrow_arc().clone_arc()
));

// ---- ArcUnion, both variants
#[kani::proof]
#[kani::unwind(4)]
#[kani::stub(std::process::abort, abort_stub)]
fn q_ok_union_first() {
    crate::ghost::arm();
    let a = Arc::new(0x1234u16);
    let u = core::mem::ManuallyDrop::new(ArcUnion::<u16, u64>::from_first(unsafe { core::ptr::read(&a) }));
    overflow_contract(&a, || core::mem::forget((*u).clone()));
    core::mem::forget(a);
}
#[kani::proof]
#[kani::unwind(4)]
#[kani::stub(std::process::abort, abort_stub_checked)]
fn q_abort_union_first() {
    crate::ghost::arm();
    let a = Arc::new(0x1234u16);
    let u = core::mem::ManuallyDrop::new(ArcUnion::<u16, u64>::from_first(unsafe { core::ptr::read(&a) }));
    abort_contract(&a, || core::mem::forget((*u).clone()));
    core::mem::forget(a);
}
#[kani::proof]
#[kani::unwind(4)]
#[kani::stub(std::process::abort, abort_stub)]
fn q_ok_union_second() {
    crate::ghost::arm();
    let a = Arc::new(0x1234u16);
    let u = core::mem::ManuallyDrop::new(ArcUnion::<u64, u16>::from_second(unsafe { core::ptr::read(&a) }));
    overflow_contract(&a, || core::mem::forget((*u).clone()));
    core::mem::forget(a);
}
#[kani::proof]
#[kani::unwind(4)]
#[kani::stub(std::process::abort, abort_stub_checked)]
fn q_abort_union_second() {
    crate::ghost::arm();
    let a = Arc::new(0x1234u16);
    let u = core::mem::ManuallyDrop::new(ArcUnion::<u64, u16>::from_second(unsafe { core::ptr::read(&a) }));
    abort_contract(&a, || core::mem::forget((*u).clone()));
    core::mem::forget(a);
}


// ---- arc-swap's RefCnt::inc (used by Guard::into_inner / load_full): a clone entry point like the others
#[kani::proof]
#[kani::unwind(4)]
#[kani::stub(std::process::abort, abort_stub)]
fn q_ok_swap_inc() {
    crate::ghost::arm();
    let a = Arc::new(7u32);
    overflow_contract(&a, || {
        let _ = <Arc<u32> as arc_swap::RefCnt>::inc(&a);
    });
    core::mem::forget(a);
}
#[kani::proof]
#[kani::unwind(4)]
#[kani::stub(std::process::abort, abort_stub_checked)]
fn q_abort_swap_inc() {
    crate::ghost::arm();
    let a = Arc::new(7u32);
    abort_contract(&a, || {
        let _ = <Arc<u32> as arc_swap::RefCnt>::inc(&a);
    });
    core::mem::forget(a);
}
#[kani::proof]
#[kani::unwind(4)]
#[kani::stub(std::process::abort, abort_stub)]
fn q_ok_swap_inc_thin() {
    crate::ghost::arm();
    let a = Arc::from_header_and_iter(HeaderWithLength::new(1u8, 1), (0..1).map(|_| 2u16));
    let t = core::mem::ManuallyDrop::new(Arc::into_thin(unsafe { core::ptr::read(&a) }));
    overflow_contract(&a, || {
        let _ = <ThinArc<u8, u16> as arc_swap::RefCnt>::inc(&t);
    });
    core::mem::forget(a);
}
#[kani::proof]
#[kani::unwind(4)]
#[kani::stub(std::process::abort, abort_stub_checked)]
fn q_abort_swap_inc_thin() {
    crate::ghost::arm();
    let a = Arc::from_header_and_iter(HeaderWithLength::new(1u8, 1), (0..1).map(|_| 2u16));
    let t = core::mem::ManuallyDrop::new(Arc::into_thin(unsafe { core::ptr::read(&a) }));
    abort_contract(&a, || {
        let _ = <ThinArc<u8, u16> as arc_swap::RefCnt>::inc(&t);
    });
    core::mem::forget(a);
}
