//! C08 (sequential half) — copy-on-write through make_mut / make_unique / OffsetArc::make_mut.
//!
//! BOUNDS: one call from an arbitrary valid state (count free in [1, isize::MAX-2]); payload a
//!   Drop- and Clone-tracked value with symbolic content; written value symbolic. Other owners
//!   are the environment (any kind, by C04 only their number matters) plus, in the *_coowner
//!   harnesses, a second harness-held handle of kind Arc / OffsetArc / ArcUnion / raw.
//! ASSUME: alloc/dealloc logging stubs; count preset through the hook.
//! BOUNDS: (real_history_*, borrows_then_in_place) short histories without any preset count: the other owner is made,
//!   cloned and released through its own kind's operations; borrow-style calls precede make_mut on a sole owner.
//! OUTSIDE: schedules (weak-memory engine); a panicking Clone (C07).
use crate::ghost::*;
use crate::kinds::*;
use core::mem::{forget, ManuallyDrop};
use triomphe::*;

macro_rules! h {
    ($name:ident, $body:expr) => {
        #[kani::proof]
        #[kani::unwind(5)]
        #[kani::stub(std::alloc::alloc, alloc_stub)]
        #[kani::stub(alloc::alloc::dealloc_nonnull, dealloc_stub)]
        #[kani::stub(core::sync::atomic::atomic_compare_exchange_weak, cas_weak_stub)]
        fn $name() {
            crate::ghost::arm();
            $body;
            kani::cover!(true, "end of harness reached");
        }
    };
}

/// contract shared by the three entry points; `get` performs the call and returns the address
/// handed out, `cur` re-reads the handle afterwards
fn cow_contract<K: Kind<P = Dt>>(
    call: impl FnOnce(&mut K) -> *mut Dt,
    block_of_handle: impl Fn(&K) -> usize,
) {
    let (a, n) = mk_dt();
    let v0 = a.v;
    let (st, mut h) = enter::<K>(a, n);
    let neww: u8 = kani::any();
    let live_before = n_live();
    let m = call(&mut h);
    unsafe { (*m).v = neww };
    if st.c == 1 {
        assert!(m as usize == st.data, "sole owner was redirected to a copy");
        assert!(clones() == 0, "sole owner's value was cloned");
        assert!(block_of_handle(&h) == st.block);
        assert!(raw_count(&st.w) == 1);
        assert!(n_live() == live_before);
        assert!(ledger_zero());
        assert!(st.w.v == neww, "write not visible through the handle's own allocation");
    } else {
        assert!(m as usize != st.data, "wrote in place while other owners exist");
        assert!(clones() == 1, "copy was not made with exactly one Clone call");
        assert!(raw_count(&st.w) == st.c - 1, "previous allocation did not lose exactly one owner");
        assert!(st.w.v == v0, "other owners observe the write");
        assert!(ledger_zero(), "something was destroyed");
        assert!(n_live() == live_before + 1, "exactly one fresh block expected");
        let nb = block_of_handle(&h);
        assert!(nb != st.block && block_of(nb).is_some(), "handle does not point at a fresh live block");
    }
    // the handle reads the written value, is a sole owner of what it points at
    assert!(h.data_addr() == m as usize);
    assert!(h.count() == 1, "after make_mut the handle must be a sole owner");
    st.covers();
    forget(h);
}

h!(q_arc_make_mut, cow_contract::<Arc<Dt>>(|h| Arc::make_mut(h) as *mut Dt, |h| h.heap_ptr() as usize));
h!(q_arc_make_unique, cow_contract::<Arc<Dt>>(|h| &mut **Arc::make_unique(h) as *mut Dt, |h| h.heap_ptr() as usize));
h!(q_offset_make_mut, cow_contract::<OffsetArc<Dt>>(
    |h| h.make_mut() as *mut Dt,
    |h| h.with_arc(|a| a.heap_ptr() as usize)
));

/// a second harness-held handle of another kind keeps observing the old value
fn cow_coowner<K2: Kind<P = Dt>>() {
    let (a, n) = mk_dt();
    let v0 = a.v;
    let other = K2::from_arc(a.clone());
    let (st, mut h) = enter_shared::<Arc<Dt>>(a, n);
    kani::assume(st.c >= 2);
    let neww: u8 = kani::any();
    kani::assume(neww != v0);
    Arc::make_mut(&mut h).v = neww;
    assert!(h.v == neww);
    assert!(other.data_addr() == st.data);
    assert!(unsafe { (*(other.data_addr() as *const Dt)).v } == v0, "co-owner sees the write");
    assert!(other.count() == st.c - 1);
    assert!(!Arc::ptr_eq(&h, &st.w));
    kani::cover!(st.c == 2, "exactly one other owner");
    forget(h);
    forget(other);
}
/// no preset count at all: the only other owner is a handle of another kind that was made, cloned and (the
/// original) released through that kind's own operations; then the write, then the other owner goes and a
/// second make_mut must stay in place
fn cow_real_history<K2: Kind<P = Dt>>() {
    let v0: u8 = kani::any();
    let neww: u8 = kani::any();
    kani::assume(neww != v0);
    let mut a = Arc::new(Dt::new(0, v0));
    let o1 = K2::from_arc(a.clone());
    let other = o1.dup();
    o1.release();
    // owners: a, other
    let old = Arc::as_ptr(&a) as usize;
    Arc::make_mut(&mut a).v = neww;
    assert!(a.v == neww && Arc::as_ptr(&a) as usize != old, "wrote in place although a handle of another kind still owns the value");
    assert!(clones() == 1);
    assert!(other.data_addr() == old && unsafe { (*(old as *const Dt)).v } == v0, "the other owner sees the write");
    assert!(other.count() == 1 && Arc::count(&a) == 1);
    other.release();
    assert!(n_live() == 1, "the old allocation must be gone with its last owner");
    let p = Arc::as_ptr(&a) as usize;
    let _ = Arc::make_mut(&mut a);
    assert!(Arc::as_ptr(&a) as usize == p && clones() == 1, "a sole owner was copied");
    drop(a);
    assert!(n_live() == 0);
}
h!(q_real_history_offset, cow_real_history::<OffsetArc<Dt>>());
h!(r0_real_history_raw, cow_real_history::<Raw<Dt>>());
h!(q_real_history_union2, cow_real_history::<U2<Dt>>());
h!(q_real_history_swap, cow_real_history::<Swp<Dt>>());
// borrow-style operations do not make a sole owner look shared: make_mut afterwards stays in place, no Clone
h!(q_borrows_then_in_place, {
    let v0: u8 = kani::any();
    let mut a = Arc::new(Dt::new(0, v0));
    let p = Arc::as_ptr(&a) as usize;
    let r = a.with_raw_offset_arc(|o| o.v);
    let r2 = a.borrow_arc().with_arc(|x| x.v);
    assert!(r == v0 && r2 == v0);
    let _ = Arc::make_mut(&mut a);
    let _ = Arc::make_unique(&mut a);
    assert!(Arc::as_ptr(&a) as usize == p && clones() == 0 && nalloc() == 1, "a borrow made a sole owner look shared: copied");
    let mut o = Arc::into_raw_offset(a);
    let r3 = o.with_arc(|x| x.v);
    let r4 = o.borrow_arc().with_arc(|x| x.v);
    assert!(r3 == v0 && r4 == v0);
    let _ = o.make_mut();
    assert!(&*o as *const Dt as usize == p && clones() == 0 && nalloc() == 1, "a borrow made a sole OffsetArc look shared: copied");
    drop(o);
    assert!(n_live() == 0 && ledger_is(0, 1));
});
h!(q_coowner_offset, cow_coowner::<OffsetArc<Dt>>());
h!(q_coowner_raw, cow_coowner::<Raw<Dt>>());
h!(r0_coowner_union1, cow_coowner::<U1<Dt>>());
h!(r1_coowner_union2, cow_coowner::<U2<Dt>>());
h!(r2_coowner_arc, cow_coowner::<Arc<Dt>>());

// zero-sized payload: copy-on-write must not be skipped
#[derive(Clone, PartialEq)]
struct ZClone;
static mut ZCLONES: u8 = 0;
#[derive(PartialEq)]
struct Zc;
impl Clone for Zc {
    fn clone(&self) -> Zc {
        unsafe { ZCLONES += 1 };
        Zc
    }
}
h!(q_make_mut_zst, {
    let a = Arc::new(Zc);
    let w = ManuallyDrop::new(unsafe { core::ptr::read(&a) });
    let mut h = a;
    let c: usize = kani::any();
    kani::assume(c >= 1 && c <= MAXC);
    set_count(&w, c);
    let _ = Arc::make_mut(&mut h);
    if c == 1 {
        assert!(Arc::ptr_eq(&h, &w) && unsafe { ZCLONES } == 0);
    } else {
        assert!(!Arc::ptr_eq(&h, &w), "zero-sized payload: shared handle was not redirected");
        assert!(unsafe { ZCLONES } == 1);
        assert!(raw_count(&w) == c - 1);
    }
    assert!(Arc::count(&h) == 1);
    kani::cover!(c == 1);
    kani::cover!(c == 2);
    forget(h);
});
