//! C08 (sequential half) — copy-on-write through make_mut / make_unique / OffsetArc::make_mut.
//!
//! BOUNDS: one call from an arbitrary valid state (count free in [1, isize::MAX-2]); payload a
//!   Drop- and Clone-tracked value with symbolic content; written value symbolic. Other owners
//!   are the environment (any kind, by C04 only their number matters) plus, in the *_coowner
//!   harnesses, a second harness-held handle of kind Arc / OffsetArc / ArcUnion / raw.
//! ASSUME: alloc/dealloc logging stubs; count preset through the hook.
//! OUTSIDE: schedules (weak-memory engine); a panicking Clone (C07).
use crate::ghost::*;
use crate::kinds::*;
use core::mem::{forget, ManuallyDrop};
use triomphe::*;

macro_rules! h {
    ($name:ident, $body:expr) => {
        #[kani::proof]
        #[kani::unwind(5)]
        #[kani::stub(std::alloc::alloc, alloc_stub)]
        #[kani::stub(alloc::alloc::dealloc_nonnull, dealloc_stub)]
        #[kani::stub(core::sync::atomic::atomic_compare_exchange_weak, cas_weak_stub)]
        fn $name() {
            crate::ghost::arm();
            $body;
            kani::cover!(true, "end of harness reached");
        }
    };
}

/// contract shared by the three entry points; `get` performs the call and returns the address
/// handed out, `cur` re-reads the handle afterwards
fn cow_contract<K: Kind<P = Dt>>(
    call: impl FnOnce(&mut K) -> *mut Dt,
    block_of_handle: impl Fn(&K) -> usize,
) {
    let (a, n) = mk_dt();
    let v0 = a.v;
    let (st, mut h) = enter::<K>(a, n);
    let neww: u8 = kani::any();
    let live_before = n_live();
    let m = call(&mut h);
    unsafe { (*m).v = neww };
    if st.c == 1 {
        assert!(m as usize == st.data, "sole owner was redirected to a copy");
        assert!(clones() == 0, "sole owner's value was cloned");
        assert!(block_of_handle(&h) == st.block);
        assert!(raw_count(&st.w) == 1);
        assert!(n_live() == live_before);
        assert!(ledger_zero());
        assert!(st.w.v == neww, "write not visible through the handle's own allocation");
    } else {
        assert!(m as usize != st.data, "wrote in place while other owners exist");
        assert!(clones() == 1, "copy was not made with exactly one Clone call");
        assert!(raw_count(&st.w) == st.c - 1, "previous allocation did not lose exactly one owner");
        assert!(st.w.v == v0, "other owners observe the write");
        assert!(ledger_zero(), "something was destroyed");
        assert!(n_live() == live_before + 1, "exactly one fresh block expected");
        let nb = block_of_handle(&h);
        assert!(nb != st.block && block_of(nb).is_some(), "handle does not point at a fresh live block");
    }
    // the handle reads the written value, is a sole owner of what it points at
    assert!(h.data_addr() == m as usize);
    assert!(h.count() == 1, "after make_mut the handle must be a sole owner");
    st.covers();
    forget(h);
}

h!(q_arc_make_mut, cow_contract::<Arc<Dt>>(|h| Arc::make_mut(h) as *mut Dt, |h| h.heap_ptr() as usize));
h!(q_arc_make_unique, cow_contract::<Arc<Dt>>(|h| &mut **Arc::make_unique(h) as *mut Dt, |h| h.heap_ptr() as usize));
h!(q_offset_make_mut, cow_contract::<OffsetArc<Dt>>(
    |h| h.make_mut() as *mut Dt,
    |h| h.with_arc(|a| a.heap_ptr() as usize)
));

/// a second harness-held handle of another kind keeps observing the old value
fn cow_coowner<K2: Kind<P = Dt>>() {
    let (a, n) = mk_dt();
    let v0 = a.v;
    let other = K2::from_arc(a.clone());
    let (st, mut h) = enter_shared::<Arc<Dt>>(a, n);
    kani::assume(st.c >= 2);
    let neww: u8 = kani::any();
    kani::assume(neww != v0);
    Arc::make_mut(&mut h).v = neww;
    assert!(h.v == neww);
    assert!(other.data_addr() == st.data);
    assert!(unsafe { (*(other.data_addr() as *const Dt)).v } == v0, "co-owner sees the write");
    assert!(other.count() == st.c - 1);
    assert!(!Arc::ptr_eq(&h, &st.w));
    kani::cover!(st.c == 2, "exactly one other owner");
    forget(h);
    forget(other);
}
h!(q_coowner_offset, cow_coowner::<OffsetArc<Dt>>());
h!(q_coowner_raw, cow_coowner::<Raw<Dt>>());
h!(r0_coowner_union1, cow_coowner::<U1<Dt>>());
h!(r1_coowner_union2, cow_coowner::<U2<Dt>>());
h!(r2_coowner_arc, cow_coowner::<Arc<Dt>>());

// zero-sized payload: copy-on-write must not be skipped
#[derive(Clone, PartialEq)]
struct ZClone;
static mut ZCLONES: u8 = 0;
#[derive(PartialEq)]
struct Zc;
impl Clone for Zc {
    fn clone(&self) -> Zc {
        unsafe { ZCLONES += 1 };
        Zc
    }
}
h!(q_make_mut_zst, {
    let a = Arc::new(Zc);
    let w = ManuallyDrop::new(unsafe { core::ptr::read(&a) });
    let mut h = a;
    let c: usize = kani::any();
    kani::assume(c >= 1 && c <= MAXC);
    set_count(&w, c);
    let _ = Arc::make_mut(&mut h);
    if c == 1 {
        assert!(Arc::ptr_eq(&h, &w) && unsafe { ZCLONES } == 0);
    } else {
        assert!(!Arc::ptr_eq(&h, &w), "zero-sized payload: shared handle was not redirected");
        assert!(unsafe { ZCLONES } == 1);
        assert!(raw_count(&w) == c - 1);
    }
    assert!(Arc::count(&h) == 1);
    kani::cover!(c == 1);
    kani::cover!(c == 2);
    forget(h);
});
