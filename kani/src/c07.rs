//! C07 — panicking or lying callbacks cause no double drop and no uninitialised read.
//!
//! BOUNDS: (1) lying iterators: every (reported, actual) pair with reported, actual in 0..=3
//!   (|difference| up to 3) for Arc::from_header_and_iter; two successive reported values
//!   (a hint that changes between calls) for ThinArc::from_header_and_iter and for FromIterator
//!   (Arc<[T]> / UniqueArc<[T]>); element values symbolic, Drop-tracked. Outcome must be the right
//!   value or a safe-code panic raised by the library - never an out-of-bounds write, a read or
//!   drop of an unwritten slot, or a handle of the wrong length. Both debug-assertion profiles
//!   in the thorough tier.
//!   (2) allocation failure injected at each allocation a constructor performs (symbolic index):
//!   the only continuation is handle_alloc_error.
//!   (3) state at callback entry: Clone::clone inside make_mut / make_unique / unwrap_or_clone /
//!   OffsetArc::make_mut observes the count, the caller's handle and the ledger unchanged, for
//!   every count value.
//! ASSUME: alloc/dealloc logging stubs; handle_alloc_error stubbed (records, ends the path).
//! OUTSIDE: (for these Kani harnesses) everything that happens AFTER a panic starts to propagate:
//!   Kani models panic as the end of the path. The state left behind by a propagating panic is
//!   decided by Engine U (wmm/unwind.py, DESIGN 10.5) as the second part of this check.
use crate::ghost::*;
use crate::kinds::*;
use core::mem::{forget, ManuallyDrop, MaybeUninit};
use triomphe::*;

macro_rules! hp {
    ($name:ident, $body:expr) => {
        #[kani::proof]
        #[kani::unwind(7)]
        #[kani::stub(std::alloc::alloc, alloc_stub)]
        #[kani::stub(alloc::alloc::dealloc_nonnull, dealloc_stub)]
        #[kani::stub(alloc::alloc::realloc_nonnull, realloc_stub)]
        #[kani::stub(std::alloc::handle_alloc_error, hae_stub)]
        fn $name() {
            crate::ghost::arm();
            $body
        }
    };
}

/// Iterator that yields `A` Drop-tracked items (ids 1..=A) and claims lengths R1 (first
/// question), R2 (every later question).
struct Liar<const R1: usize, const R2: usize, const A: usize> {
    i: usize,
    asked: usize,
    vals: [u8; 4],
}
impl<const R1: usize, const R2: usize, const A: usize> Liar<R1, R2, A> {
    fn new() -> Self {
        Liar { i: 0, asked: 0, vals: kani::any() }
    }
    fn claim(&self) -> usize {
        let base = if self.asked == 0 { R1 } else { R2 };
        base.saturating_sub(self.i)
    }
}
impl<const R1: usize, const R2: usize, const A: usize> Iterator for Liar<R1, R2, A> {
    type Item = Dt;
    fn next(&mut self) -> Option<Dt> {
        assert!(ledger_zero(), "an element was destroyed while the constructor was still running");
        if self.i < A {
            let d = Dt::new(1 + self.i as u8, self.vals[self.i]);
            self.i += 1;
            Some(d)
        } else {
            None
        }
    }
    fn size_hint(&self) -> (usize, Option<usize>) {
        let c = self.claim();
        // interior mutability is not needed: `asked` only distinguishes the first question
        (c, Some(c))
    }
}
impl<const R1: usize, const R2: usize, const A: usize> ExactSizeIterator for Liar<R1, R2, A> {
    fn len(&self) -> usize {
        self.claim()
    }
}
/// wrapper that counts the questions (len / size_hint take &self)
struct Asked<I>(I, core::cell::Cell<usize>);

fn right_value<const A: usize>(header: &Dt, slice: &[Dt], vals: &[u8; 4]) {
    assert!(slice.len() == A, "constructor returned a handle whose length is not what the iterator yielded");
    assert!(header.id == 0);
    for i in 0..A {
        assert!(slice[i].id == 1 + i as u8 && slice[i].v == vals[i], "element differs from what the iterator yielded");
    }
    assert!(ledger_zero());
}

fn lying_fat<const R: usize, const A: usize>() {
    let it = Liar::<R, R, A>::new();
    let vals = it.vals;
    kani::cover!(true, "constructor reached");
    let a = Arc::from_header_and_iter(Dt::new(0, 9), it);
    // reachable only if the library did not refuse
    right_value::<A>(&a.header, &a.slice, &vals);
    assert!(R == A, "a lie about the length went unnoticed");
    drop(a);
    assert!(ledger_is(0, A + 1) && n_live() == 0);
}
macro_rules! fat_pairs {
    ($($name:ident $r:expr, $a:expr;)*) => {$( hp!($name, lying_fat::<$r, $a>()); )*};
}
fat_pairs! {
    qp_fat_r2_a2 2, 2;  qp_fat_r3_a2 3, 2;  qp_fat_r1_a2 1, 2;  qp_fat_r0_a1 0, 1;  qp_fat_r1_a0 1, 0;
    r0p_fat_r0_a0 0, 0; r0p_fat_r3_a0 3, 0; r0p_fat_r0_a3 0, 3; r0p_fat_r2_a1 2, 1;
    r1p_fat_r1_a1 1, 1; r1p_fat_r3_a1 3, 1; r1p_fat_r1_a3 1, 3; r1p_fat_r2_a0 2, 0;
    r2p_fat_r3_a3 3, 3; r2p_fat_r2_a3 2, 3; r2p_fat_r0_a2 0, 2;
}

fn lying_thin<const R1: usize, const R2: usize, const A: usize>() {
    let it = Liar::<R1, R2, A>::new();
    let vals = it.vals;
    kani::cover!(true, "constructor reached");
    // ThinArc asks for the length twice (header, then allocation): count the first question
    let t = ThinArc::from_header_and_iter(Dt::new(0, 9), FirstThenRest(it));
    right_value::<A>(&t.header.header, &t.slice, &vals);
    assert!(t.header.length == A, "recorded length differs from the number of elements");
    drop(t);
    assert!(ledger_is(0, A + 1) && n_live() == 0);
}
/// forwards to Liar but flips `asked` after the first length question
struct FirstThenRest<const R1: usize, const R2: usize, const A: usize>(Liar<R1, R2, A>);
static mut QUESTIONS: usize = 0;
impl<const R1: usize, const R2: usize, const A: usize> Iterator for FirstThenRest<R1, R2, A> {
    type Item = Dt;
    fn next(&mut self) -> Option<Dt> {
        self.0.next()
    }
    fn size_hint(&self) -> (usize, Option<usize>) {
        let c = self.len();
        (c, Some(c))
    }
}
impl<const R1: usize, const R2: usize, const A: usize> ExactSizeIterator for FirstThenRest<R1, R2, A> {
    fn len(&self) -> usize {
        let q = unsafe { QUESTIONS };
        unsafe { QUESTIONS += 1 };
        let base = if q == 0 { R1 } else { R2 };
        base.saturating_sub(self.0.i)
    }
}
/// the fat constructor asked more than once: first answer R1, every later answer R2
fn lying_fat_changing<const R1: usize, const R2: usize, const A: usize>() {
    let it = Liar::<R1, R2, A>::new();
    let vals = it.vals;
    unsafe { QUESTIONS = 0 };
    kani::cover!(true, "constructor reached");
    let a = Arc::from_header_and_iter(Dt::new(0, 9), FirstThenRest(it));
    right_value::<A>(&a.header, &a.slice, &vals);
    assert!(R1 == A, "a lie about the length went unnoticed (the block was sized by the first answer)");
    drop(a);
    assert!(ledger_is(0, A + 1) && n_live() == 0);
}
macro_rules! fat_changing {
    ($($name:ident $r1:expr, $r2:expr, $a:expr;)*) => {$( hp!($name, lying_fat_changing::<$r1, $r2, $a>()); )*};
}
fat_changing! {
    qp_fatc_r1_r3_a3 1, 3, 3;  qp_fatc_r2_r1_a2 2, 1, 2;  qp_fatc_r2_r3_a2 2, 3, 2;
    r0p_fatc_r0_r2_a2 0, 2, 2; r1p_fatc_r3_r1_a1 3, 1, 1; r2p_fatc_r1_r2_a1 1, 2, 1;
}
macro_rules! thin_triples {
    ($($name:ident $r1:expr, $r2:expr, $a:expr;)*) => {$( hp!($name, lying_thin::<$r1, $r2, $a>()); )*};
}
thin_triples! {
    qp_thin_r2_r2_a2 2, 2, 2;  qp_thin_r3_r2_a2 3, 2, 2;  qp_thin_r1_r2_a2 1, 2, 2;  qp_thin_r2_r2_a1 2, 2, 1;
    r0p_thin_r2_r3_a3 2, 3, 3; r0p_thin_r0_r0_a1 0, 0, 1; r0p_thin_r1_r0_a0 1, 0, 0;
    r1p_thin_r3_r3_a2 3, 3, 2; r1p_thin_r0_r1_a1 0, 1, 1; r1p_thin_r1_r1_a3 1, 1, 3;
    r2p_thin_r2_r1_a1 2, 1, 1; r2p_thin_r3_r0_a0 3, 0, 0; r2p_thin_r0_r2_a2 0, 2, 2;
}

/// Inexact size hint `(R - yielded, None)` over A real items: the lower bound may over- or under-claim. `collect`
/// takes its growable-buffer branch, which must not believe the bound either.
struct LooseLiar<const R: usize, const A: usize>(Liar<R, R, A>);
impl<const R: usize, const A: usize> Iterator for LooseLiar<R, A> {
    type Item = Dt;
    fn next(&mut self) -> Option<Dt> {
        self.0.next()
    }
    fn size_hint(&self) -> (usize, Option<usize>) {
        (R.saturating_sub(self.0.i), None)
    }
}
fn lying_collect_loose<const R: usize, const A: usize>(unique: bool) {
    let it = Liar::<R, R, A>::new();
    let vals = it.vals;
    kani::cover!(true, "constructor reached");
    let a: Arc<[Dt]> = if unique { LooseLiar(it).collect::<UniqueArc<[Dt]>>().shareable() } else { LooseLiar(it).collect() };
    assert!(a.len() == A, "collect (inexact hint) returned a handle whose length is not what the iterator yielded");
    for i in 0..A {
        assert!(a[i].id == 1 + i as u8 && a[i].v == vals[i]);
    }
    assert!(ledger_zero() && Arc::count(&a) == 1);
    drop(a);
    assert!(ledger_is(1, A + 1) && n_live() == 0);
}
hp!(qp_collect_loose_r2_a1, lying_collect_loose::<2, 1>(false));
hp!(qp_collect_loose_r1_a0, lying_collect_loose::<1, 0>(true));
hp!(r0p_collect_loose_r3_a2, lying_collect_loose::<3, 2>(false));
hp!(r1p_collect_loose_r1_a2, lying_collect_loose::<1, 2>(true));
hp!(r2p_collect_loose_r2_a2, lying_collect_loose::<2, 2>(false));
hp!(tp_collect_loose_r3_a0, lying_collect_loose::<3, 0>(false));
hp!(tp_collect_loose_r0_a2, lying_collect_loose::<0, 2>(true));

fn lying_collect<const R1: usize, const R2: usize, const A: usize>(unique: bool) {
    let it = Liar::<R1, R2, A>::new();
    let vals = it.vals;
    kani::cover!(true, "constructor reached");
    let a: Arc<[Dt]> = if unique { FirstThenRest(it).collect::<UniqueArc<[Dt]>>().shareable() } else { FirstThenRest(it).collect() };
    assert!(a.len() == A, "collect returned a handle whose length is not what the iterator yielded");
    for i in 0..A {
        assert!(a[i].id == 1 + i as u8 && a[i].v == vals[i]);
    }
    assert!(ledger_zero() && Arc::count(&a) == 1);
    drop(a);
    assert!(ledger_is(1, A + 1) && n_live() == 0);
}
macro_rules! collect_triples {
    ($($name:ident $r1:expr, $r2:expr, $a:expr, $u:expr;)*) => {$( hp!($name, lying_collect::<$r1, $r2, $a>($u)); )*};
}
collect_triples! {
    qp_collect_r2_r2_a2 2, 2, 2, false;  qp_collect_r3_r3_a2 3, 3, 2, false;  qp_collect_r1_r1_a2 1, 1, 2, true;
    qp_collect_r2_r3_a3 2, 3, 3, false;  qp_collect_r2_r1_a1 2, 1, 1, true;
    r0p_collect_r0_r0_a1 0, 0, 1, false; r0p_collect_r1_r1_a0 1, 1, 0, true; r0p_collect_r3_r2_a2 3, 2, 2, false;
    r1p_collect_r0_r2_a2 0, 2, 2, true;  r1p_collect_r3_r3_a3 3, 3, 3, false; r1p_collect_r1_r3_a2 1, 3, 2, false;
    r2p_collect_r2_r0_a0 2, 0, 0, false; r2p_collect_r0_r0_a0 0, 0, 0, true;  r2p_collect_r1_r2_a3 1, 2, 3, true;
}

// ------------------------------------------------------------------ (2) allocation failure
fn alloc_failure(max_allocs: usize, ctor: impl FnOnce()) {
    // k == max_allocs: no failure injected (shows the harness can also complete)
    let k: usize = kani::any();
    kani::assume(k <= max_allocs);
    unsafe { FAIL_ALLOC_AT = k };
    ctor();
    // returned normally: then the failing request was never made
    assert!(nalloc() <= k, "constructor returned although an allocation it made had failed");
    kani::cover!(k == max_allocs, "completes when no allocation fails");
}
macro_rules! af {
    ($name:ident, $n:expr, $ctor:expr) => {
        #[kani::proof]
        #[kani::unwind(7)]
        #[kani::stub(std::alloc::alloc, alloc_stub)]
        #[kani::stub(alloc::alloc::dealloc_nonnull, dealloc_stub)]
        #[kani::stub(alloc::alloc::realloc_nonnull, realloc_stub)]
        #[kani::stub(std::alloc::handle_alloc_error, hae_stub_cov)]
        fn $name() {
            crate::ghost::arm();
            alloc_failure($n, || {
                let r = $ctor;
                forget(r);
            });
        }
    };
}
af!(q_af_new, 1, Arc::new(kani::any::<u32>()));
af!(q_af_new_uninit, 1, UniqueArc::<u64>::new_uninit());
af!(q_af_arc_new_uninit, 1, Arc::<MaybeUninit<u16>>::new_uninit());
af!(q_af_header_slice, 1, Arc::from_header_and_slice(kani::any::<u8>(), &[1u16, 2][..]));
af!(q_af_header_iter, 1, Arc::from_header_and_iter(kani::any::<u8>(), [1u16, 2].iter().copied()));
af!(q_af_uninit_slice, 1, UniqueArc::<HeaderSlice<u8, [MaybeUninit<u32>]>>::from_header_and_uninit_slice(1, 2));
af!(q_af_thin_slice, 1, ThinArc::from_header_and_slice(kani::any::<u8>(), &[1u16, 2][..]));
af!(r0_af_from_box, 2, Arc::<u32>::from(Box::new(kani::any::<u32>())));
af!(r1_af_from_str, 1, Arc::<str>::from("ab"));
af!(r2_af_new_uninit_slice, 1, Arc::<[MaybeUninit<u8>]>::new_uninit_slice(3));
af!(r0_af_collect, 2, [1u8, 2].iter().copied().filter(|_| true).collect::<Arc<[u8]>>());
af!(r1_af_make_mut_shared, 2, {
    let a = Arc::new(5u32);
    let mut b = a.clone();
    *Arc::make_mut(&mut b) = 6;
    (a, b)
});
// ------------------------------------------------------------------ (3) state at Clone entry
static mut WATCH_COUNT: usize = 0;
static mut WATCH_HANDLE: *const usize = core::ptr::null();
static mut WATCH_BITS: usize = 0;
static mut WATCH_W: *const Arc<Probe> = core::ptr::null();
static mut CLONE_CALLS: usize = 0;
struct Probe(u8);
impl Clone for Probe {
    fn clone(&self) -> Probe {
        unsafe {
            CLONE_CALLS += 1;
            // what a panic at this point would leave behind
            assert!(raw_count(&*WATCH_W) == WATCH_COUNT, "count already changed when user Clone code runs");
            assert!(*WATCH_HANDLE == WATCH_BITS, "caller's handle already changed when user Clone code runs");
            assert!(n_live() == 1, "allocation made before the clone succeeded");
        }
        Probe(self.0)
    }
}
fn watch(w: &ManuallyDrop<Arc<Probe>>, handle_bits: *const usize, c: usize) {
    unsafe {
        WATCH_W = &**w as *const Arc<Probe>;
        WATCH_HANDLE = handle_bits;
        WATCH_BITS = *handle_bits;
        WATCH_COUNT = c;
    }
}
fn probe_state() -> (ManuallyDrop<Arc<Probe>>, Arc<Probe>, usize) {
    let a = Arc::new(Probe(kani::any()));
    let w = ManuallyDrop::new(unsafe { core::ptr::read(&a) });
    let c: usize = kani::any();
    kani::assume(c >= 1 && c <= MAXC);
    set_count(&w, c);
    (w, a, c)
}
hp!(q_entry_make_mut, {
    let (w, mut h, c) = probe_state();
    watch(&w, &h as *const Arc<Probe> as *const usize, c);
    let _ = Arc::make_mut(&mut h);
    assert!(unsafe { CLONE_CALLS } == if c == 1 { 0 } else { 1 });
    kani::cover!(c > 1, "clone path taken");
    forget(h);
});
hp!(q_entry_make_unique, {
    let (w, mut h, c) = probe_state();
    watch(&w, &h as *const Arc<Probe> as *const usize, c);
    let _ = Arc::make_unique(&mut h);
    assert!(unsafe { CLONE_CALLS } == if c == 1 { 0 } else { 1 });
    kani::cover!(c > 1, "clone path taken");
    forget(h);
});
hp!(q_entry_offset_make_mut, {
    let (w, h, c) = probe_state();
    let mut o = Arc::into_raw_offset(h);
    watch(&w, &o as *const OffsetArc<Probe> as *const usize, c);
    let _ = o.make_mut();
    assert!(unsafe { CLONE_CALLS } == if c == 1 { 0 } else { 1 });
    kani::cover!(c > 1, "clone path taken");
    forget(o);
});
hp!(q_entry_unwrap_or_clone, {
    let (w, h, c) = probe_state();
    // the handle is moved into the call: watch the witness's own bits instead
    watch(&w, &*w as *const Arc<Probe> as *const usize, c);
    let v = Arc::unwrap_or_clone(h);
    assert!(unsafe { CLONE_CALLS } == if c == 1 { 0 } else { 1 });
    kani::cover!(c > 1, "clone path taken");
    forget(v);
});
