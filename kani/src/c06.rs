//! C06 — constructors deliver exactly the given contents and move each element once.
//!
//! BOUNDS: element sequences of length 0..=3 (enumerated, concrete per harness) with symbolic
//!   values; Drop-tracked headers/elements with ledger identities; Vec inputs with capacity slack
//!   0 and 1; iterator size_hint regimes exact / lower<upper / (0,None); header/element shapes
//!   u8,u16,u32,u64, over-aligned (16), padded header-vs-element pairs (u8 header + u32/u64
//!   elements, u32 header + u64 elements), ZST elements (must refuse up front or be right).
//! ASSUME: alloc/dealloc logging stubs (so "the source container's storage is released" and "no
//!   other block leaks" are observable).
//! OUTSIDE: lengths above 3; lying iterators (C07).
use crate::ghost::*;
use crate::kinds::*;
use core::mem::{forget, ManuallyDrop, MaybeUninit};
use triomphe::*;

macro_rules! h {
    ($name:ident, $body:expr) => {
        #[kani::proof]
        #[kani::unwind(6)]
        #[kani::stub(std::alloc::alloc, alloc_stub)]
        #[kani::stub(alloc::alloc::dealloc_nonnull, dealloc_stub)]
        #[kani::stub(alloc::alloc::realloc_nonnull, realloc_stub)]
        fn $name() {
            crate::ghost::arm();
            $body;
            kani::cover!(true, "end of harness reached");
        }
    };
}

/// contents check for header + Drop-tracked elements built from `vals`
fn check_dt<const N: usize>(hs_header: &Dt, slice: &[Dt], hv: u8, vals: &[u8; N]) {
    assert!(hs_header.id == 0 && hs_header.v == hv, "header differs from the input");
    assert!(slice.len() == N, "number of elements differs from the input");
    for i in 0..N {
        assert!(slice[i].id == 1 + i as u8, "elements out of order or duplicated");
        assert!(slice[i].v == vals[i], "element value differs from the input");
    }
    assert!(ledger_zero(), "an input element was destroyed during construction");
}
fn finish(n_ids: usize) {
    assert!(ledger_is(0, n_ids), "each input value must be destroyed exactly once, by the resulting allocation");
    assert!(n_live() == 0, "a block leaked (source container storage or the result)");
}

fn iter_dt<const N: usize>() {
    let vals: [u8; N] = kani::any();
    let hv: u8 = kani::any();
    let a = Arc::from_header_and_iter(Dt::new(0, hv), (0..N).map(|i| Dt::new(1 + i as u8, vals[i])));
    check_dt(&a.header, &a.slice, hv, &vals);
    assert!(Arc::count(&a) == 1 && n_live() == 1);
    drop(a);
    finish(N + 1);
}
h!(q_iter_dt_n0, iter_dt::<0>());
h!(q_iter_dt_n2, iter_dt::<2>());
h!(r0_iter_dt_n1, iter_dt::<1>());
h!(r1_iter_dt_n3, iter_dt::<3>());
h!(t_iter_dt_n4, iter_dt::<4>());

fn thin_iter_dt<const N: usize>() {
    let vals: [u8; N] = kani::any();
    let hv: u8 = kani::any();
    let t = ThinArc::from_header_and_iter(Dt::new(0, hv), (0..N).map(|i| Dt::new(1 + i as u8, vals[i])));
    check_dt(&t.header.header, &t.slice, hv, &vals);
    assert!(t.header.length == N, "recorded length differs from the number of elements");
    drop(t);
    finish(N + 1);
}
h!(q_thin_iter_dt_n2, thin_iter_dt::<2>());
h!(r2_thin_iter_dt_n0, thin_iter_dt::<0>());
h!(t_thin_iter_dt_n3, thin_iter_dt::<3>());

fn vec_dt<const N: usize, const SLACK: usize>() {
    let vals: [u8; N] = kani::any();
    let hv: u8 = kani::any();
    let mut v: Vec<Dt> = Vec::with_capacity(N + SLACK);
    for i in 0..N {
        v.push(Dt::new(1 + i as u8, vals[i]));
    }
    let a = Arc::from_header_and_vec(Dt::new(0, hv), v);
    check_dt(&a.header, &a.slice, hv, &vals);
    assert!(n_live() == 1, "the Vec's own storage was not released (or the result is missing)");
    drop(a);
    finish(N + 1);
}
h!(q_vec_dt_n2_slack0, vec_dt::<2, 0>());
h!(q_vec_dt_n1_slack1, vec_dt::<1, 1>());
h!(r0_vec_dt_n0_slack0, vec_dt::<0, 0>());
h!(r1_vec_dt_n0_slack1, vec_dt::<0, 1>());
h!(r2_vec_dt_n3_slack1, vec_dt::<3, 1>());
h!(t_vec_dt_n4_slack0, vec_dt::<4, 0>());
h!(t_vec_dt_n2_slack1, vec_dt::<2, 1>());

fn arc_from_vec_dt<const N: usize>() {
    let vals: [u8; N] = kani::any();
    let mut v: Vec<Dt> = Vec::with_capacity(N + 1);
    for i in 0..N {
        v.push(Dt::new(i as u8, vals[i]));
    }
    let a: Arc<[Dt]> = Arc::from(v);
    assert!(a.len() == N && ledger_zero());
    for i in 0..N {
        assert!(a[i].id == i as u8 && a[i].v == vals[i]);
    }
    assert!(n_live() == 1);
    drop(a);
    finish(N);
}
h!(q_arc_from_vec_dt_n2, arc_from_vec_dt::<2>());
h!(r0_arc_from_vec_dt_n0, arc_from_vec_dt::<0>());
h!(t_arc_from_vec_dt_n3, arc_from_vec_dt::<3>());

h!(q_from_box_dt, {
    let v: u8 = kani::any();
    let b = Box::new(Dt::new(0, v));
    let a: Arc<Dt> = Arc::from(b);
    assert!(ledger_zero(), "From<Box<T>> destroyed the boxed value");
    assert!(a.id == 0 && a.v == v && Arc::count(&a) == 1);
    assert!(n_live() == 1, "the Box's own storage was not released");
    drop(a);
    finish(1);
});
static mut ZB_DROPS: u8 = 0;
struct ZBox;
impl Drop for ZBox {
    fn drop(&mut self) {
        unsafe { ZB_DROPS += 1 };
    }
}
h!(q_from_box_zst, {
    // a Box of a zero-sized value owns no storage: nothing may be handed to the allocator for it
    let a: Arc<ZBox> = Arc::from(Box::new(ZBox));
    assert!(unsafe { ZB_DROPS } == 0 && Arc::count(&a) == 1);
    assert!(n_live() == 1 && ndealloc() == 0, "From<Box<ZST>>: the allocator was handed something for the (storage-less) Box");
    drop(a);
    assert!(unsafe { ZB_DROPS } == 1 && n_live() == 0);
});
h!(q_new_from_default, {
    let v: u8 = kani::any();
    let a = Arc::new(Dt::new(0, v));
    assert!(a.v == v && ledger_zero());
    let b: Arc<Dt> = Arc::from(Dt::new(1, v));
    assert!(b.v == v && b.id == 1 && ledger_zero());
    let u = UniqueArc::new(Dt::new(2, v));
    assert!(u.v == v && ledger_zero());
    let d: Arc<u32> = Default::default();
    assert!(*d == 0);
    drop(a);
    drop(b);
    drop(u);
    drop(d);
    finish(3);
});

// ---- Copy elements: from_header_and_slice / &[T] / &str / String, padded shapes
fn slice_copy<H: Copy + PartialEq, T: Copy + PartialEq, const N: usize>(hv: H, vals: [T; N]) {
    let a = Arc::from_header_and_slice(hv, &vals[..]);
    assert!(a.header == hv && a.slice.len() == N);
    for i in 0..N {
        assert!(a.slice[i] == vals[i], "element differs from the input (wrong offset or order)");
    }
    let t = ThinArc::from_header_and_slice(hv, &vals[..]);
    assert!(t.header.header == hv && t.header.length == N && t.slice.len() == N);
    for i in 0..N {
        assert!(t.slice[i] == vals[i]);
    }
    // the iterator form must agree for the same shape (catches a wrong element base address)
    let b = Arc::from_header_and_iter(hv, (0..N).map(|i| vals[i]));
    assert!(b.header == hv && b.slice.len() == N);
    for i in 0..N {
        assert!(b.slice[i] == vals[i], "from_header_and_iter: element differs from the input (wrong offset or order)");
    }
    let s: Arc<[T]> = Arc::from(&vals[..]);
    assert!(s.len() == N);
    for i in 0..N {
        assert!(s[i] == vals[i]);
    }
    drop(a);
    drop(t);
    drop(b);
    drop(s);
    assert!(n_live() == 0);
}
fn bytes<const N: usize>() -> [u8; N] {
    kani::any()
}
h!(q_slice_copy_u8_u32_n2, slice_copy::<u8, u32, 2>(kani::any(), kani::any()));
h!(q_slice_copy_u32_u64_n1, slice_copy::<u32, u64, 1>(kani::any(), kani::any()));
h!(r0_slice_copy_u8_u64_n3, slice_copy::<u8, u64, 3>(kani::any(), kani::any()));
h!(r1_slice_copy_unit_s5a16_n2, slice_copy::<(), S5a16, 2>((), [S5a16(bytes()), S5a16(bytes())]));
h!(r2_slice_copy_s3a1_u16_n3, slice_copy::<S3a1, u16, 3>(S3a1(bytes()), kani::any()));
h!(t_slice_copy_u16_u16_n0, slice_copy::<u16, u16, 0>(kani::any(), []));
h!(t_slice_copy_u64_u8_n3, slice_copy::<u64, u8, 3>(kani::any(), kani::any()));

h!(q_str_forms, {
    let mut b: [u8; 3] = kani::any();
    kani::assume(b[0] < 128 && b[1] < 128 && b[2] < 128);
    let s = unsafe { core::str::from_utf8_unchecked(&b[..]) };
    let a: Arc<str> = Arc::from(s);
    assert!(a.len() == 3 && a.as_bytes()[0] == b[0] && a.as_bytes()[1] == b[1] && a.as_bytes()[2] == b[2]);
    let hv: u16 = kani::any();
    let hs = Arc::from_header_and_str(hv, s);
    assert!(hs.header == hv && hs.slice.len() == 3 && hs.slice.as_bytes()[2] == b[2] && hs.slice.as_bytes()[0] == b[0]);
    let owned = alloc_string(s);
    let c: Arc<str> = Arc::from(owned);
    assert!(c.len() == 3 && c.as_bytes()[1] == b[1]);
    drop(a);
    drop(hs);
    drop(c);
    assert!(n_live() == 0, "String storage or a result leaked");
});
fn alloc_string(s: &str) -> String {
    let mut o = String::with_capacity(4);
    o.push_str(s);
    o
}

// ---- FromIterator under every honest size_hint regime
#[derive(Clone, Copy, PartialEq)]
enum Regime {
    Exact,
    Loose,
    Unknown,
}
struct It<const N: usize> {
    i: usize,
    vals: [u8; N],
    regime: Regime,
}
impl<const N: usize> Iterator for It<N> {
    type Item = Dt;
    fn next(&mut self) -> Option<Dt> {
        if self.i < N {
            let d = Dt::new(self.i as u8, self.vals[self.i]);
            self.i += 1;
            Some(d)
        } else {
            None
        }
    }
    fn size_hint(&self) -> (usize, Option<usize>) {
        let rem = N - self.i;
        match self.regime {
            Regime::Exact => (rem, Some(rem)),
            Regime::Loose => (0, Some(rem + 1)),
            Regime::Unknown => (0, None),
        }
    }
}
fn collect_regime<const N: usize>(regime: Regime, unique: bool) {
    let vals: [u8; N] = kani::any();
    let it = It::<N> { i: 0, vals, regime };
    let a: Arc<[Dt]> = if unique { it.collect::<UniqueArc<[Dt]>>().shareable() } else { it.collect() };
    assert!(a.len() == N && ledger_zero() && Arc::count(&a) == 1);
    for i in 0..N {
        assert!(a[i].id == i as u8 && a[i].v == vals[i], "collected contents differ from what the iterator yielded");
    }
    assert!(n_live() == 1, "intermediate storage leaked");
    drop(a);
    finish(N);
}
h!(q_collect_exact_n2, collect_regime::<2>(Regime::Exact, false));
h!(q_collect_loose_n2, collect_regime::<2>(Regime::Loose, false));
h!(q_collect_unknown_n2, collect_regime::<2>(Regime::Unknown, true));
h!(r0_collect_exact_n0, collect_regime::<0>(Regime::Exact, true));
h!(r0_collect_unknown_n0, collect_regime::<0>(Regime::Unknown, false));
h!(r1_collect_loose_n3, collect_regime::<3>(Regime::Loose, true));
h!(r2_collect_exact_n3, collect_regime::<3>(Regime::Exact, false));
h!(r2_collect_loose_n0, collect_regime::<0>(Regime::Loose, false));
h!(t_collect_exact_n4, collect_regime::<4>(Regime::Exact, true));
h!(t_collect_unknown_n3, collect_regime::<3>(Regime::Unknown, false));
h!(t_collect_loose_n1, collect_regime::<1>(Regime::Loose, true));
h!(t_collect_unknown_n1, collect_regime::<1>(Regime::Unknown, true));

// ---- header-erasing conversions keep contents and ownership
h!(q_header_erasure, {
    let vals: [u8; 2] = kani::any();
    let a = Arc::from_header_and_iter((), (0..2usize).map(|i| Dt::new(i as u8, vals[i])));
    let blk = a.heap_ptr();
    let e: Arc<[Dt]> = a.into();
    assert!(e.len() == 2 && e[0].v == vals[0] && e[1].v == vals[1] && e.heap_ptr() == blk && Arc::count(&e) == 1);
    let back: Arc<HeaderSlice<(), [Dt]>> = e.into();
    assert!(back.slice.len() == 2 && back.slice[1].id == 1 && back.heap_ptr() == blk && Arc::count(&back) == 1);
    assert!(ledger_zero());
    drop(back);
    finish(2);
});

// ---- zero-sized elements: refuse up front (library panic) or deliver the right contents
#[kani::proof]
#[kani::unwind(6)]
#[kani::stub(std::alloc::alloc, alloc_stub)]
#[kani::stub(alloc::alloc::dealloc_nonnull, dealloc_stub)]
fn qp_zst_elements_iter() {
    crate::ghost::arm();
    let hv: u8 = kani::any();
    kani::cover!(true, "reached the constructor");
    let a = Arc::from_header_and_iter(hv, [Zst, Zst].iter().copied());
    assert!(a.header == hv && a.slice.len() == 2, "zero-sized elements: wrong contents instead of a refusal");
}
#[kani::proof]
#[kani::unwind(6)]
#[kani::stub(std::alloc::alloc, alloc_stub)]
#[kani::stub(alloc::alloc::dealloc_nonnull, dealloc_stub)]
fn qp_zst_elements_slice() {
    crate::ghost::arm();
    let hv: u8 = kani::any();
    kani::cover!(true, "reached the constructor");
    let a = Arc::from_header_and_slice(hv, &[Zst, Zst, Zst][..]);
    assert!(a.header == hv && a.slice.len() == 3, "zero-sized elements: wrong contents instead of a refusal");
}
#[kani::proof]
#[kani::unwind(6)]
#[kani::stub(std::alloc::alloc, alloc_stub)]
#[kani::stub(alloc::alloc::dealloc_nonnull, dealloc_stub)]
fn qp_zst_elements_vec() {
    crate::ghost::arm();
    let hv: u8 = kani::any();
    let mut v = Vec::new();
    v.push(Zst);
    v.push(Zst);
    kani::cover!(true, "reached the constructor");
    let a = Arc::from_header_and_vec(hv, v);
    assert!(a.header == hv && a.slice.len() == 2, "zero-sized elements: wrong contents");
    drop(a);
    assert!(n_live() == 0);
}


// ---- zero-sized elements that own something: each item is moved into the Arc once, destroyed with it once
static mut ZD_MADE: usize = 0;
static mut ZD_DROPS: usize = 0;
struct ZstD;
impl ZstD {
    fn make() -> ZstD {
        unsafe { ZD_MADE += 1 };
        ZstD
    }
}
impl Drop for ZstD {
    fn drop(&mut self) {
        unsafe { ZD_DROPS += 1 };
    }
}
struct ZIt {
    i: usize,
    n: usize,
    exact: bool,
}
impl Iterator for ZIt {
    type Item = ZstD;
    fn next(&mut self) -> Option<ZstD> {
        if self.i < self.n {
            self.i += 1;
            Some(ZstD::make())
        } else {
            None
        }
    }
    fn size_hint(&self) -> (usize, Option<usize>) {
        let rem = self.n - self.i;
        if self.exact {
            (rem, Some(rem))
        } else {
            (0, Some(rem + 1))
        }
    }
}
fn zst_drop_collect<const N: usize>(exact: bool, unique: bool) {
    crate::ghost::arm();
    let it = ZIt { i: 0, n: N, exact };
    kani::cover!(true, "reached the constructor");
    // the library may refuse zero-sized elements by panicking (p harness); if it delivers, it must be right
    if unique {
        let u: UniqueArc<[ZstD]> = it.collect();
        assert!(u.len() == N, "zero-sized items: wrong length");
        assert!(unsafe { ZD_MADE == N && ZD_DROPS == 0 }, "zero-sized items were destroyed (or not all taken) by the constructor");
        drop(u);
    } else {
        let a: Arc<[ZstD]> = it.collect();
        assert!(a.len() == N, "zero-sized items: wrong length");
        assert!(unsafe { ZD_MADE == N && ZD_DROPS == 0 }, "zero-sized items were destroyed (or not all taken) by the constructor");
        drop(a);
    }
    assert!(unsafe { ZD_DROPS == N }, "each zero-sized item is destroyed exactly once, with the allocation");
    assert!(n_live() == 0);
}
macro_rules! zdc {
    ($($name:ident $n:expr, $exact:expr, $unique:expr;)*) => {$(
        #[kani::proof]
        #[kani::unwind(6)]
        #[kani::stub(std::alloc::alloc, alloc_stub)]
        #[kani::stub(alloc::alloc::dealloc_nonnull, dealloc_stub)]
        fn $name() { zst_drop_collect::<$n>($exact, $unique) }
    )*};
}
zdc! {
    qp_zst_drop_collect_arc_loose_n2 2, false, false;
    qp_zst_drop_collect_arc_exact_n2 2, true, false;
    r0p_zst_drop_collect_unique_loose_n2 2, false, true;
    r1p_zst_drop_collect_unique_exact_n1 1, true, true;
    r2p_zst_drop_collect_arc_loose_n0 0, false, false;
}

// a zero-sized HEADER that has a destructor: moved into the allocation once, destroyed with it once
#[kani::proof]
#[kani::unwind(6)]
#[kani::stub(std::alloc::alloc, alloc_stub)]
#[kani::stub(alloc::alloc::dealloc_nonnull, dealloc_stub)]
fn q_zst_header_with_destructor() {
    crate::ghost::arm();
    let x: u8 = kani::any();
    let a = Arc::from_header_and_slice(ZstD::make(), &[x, 2u8][..]);
    assert!(unsafe { ZD_DROPS == 0 }, "a zero-sized header was destroyed by the constructor");
    assert!(a.slice[0] == x && a.slice.len() == 2);
    drop(a);
    assert!(unsafe { ZD_DROPS == 1 }, "a zero-sized header is destroyed exactly once, with the allocation");
    let b = Arc::from_header_and_str(ZstD::make(), "ab");
    assert!(unsafe { ZD_DROPS == 1 });
    drop(b);
    assert!(unsafe { ZD_DROPS == 2 } && n_live() == 0);
}

// an owning, exact-size iterator as the source: every element moves in once and the iterator's own storage is released
#[kani::proof]
#[kani::unwind(6)]
#[kani::stub(std::alloc::alloc, alloc_stub)]
#[kani::stub(alloc::alloc::dealloc_nonnull, dealloc_stub)]
fn q_iter_owning_source() {
    crate::ghost::arm();
    let x: u8 = kani::any();
    let mut v = Vec::with_capacity(2);
    v.push(Dt::new(1, x));
    v.push(Dt::new(2, x));
    let a = Arc::from_header_and_iter(Dt::new(0, x), v.into_iter());
    assert!(ledger_zero() && a.slice.len() == 2 && a.slice[1].id == 2 && a.slice[0].v == x);
    assert!(n_live() == 1, "the consumed iterator's own storage was not released");
    drop(a);
    finish(3);
}

// header and element of different alignment through the Vec constructor: elements land in the slice field, not right
// behind the header
#[kani::proof]
#[kani::unwind(6)]
#[kani::stub(std::alloc::alloc, alloc_stub)]
#[kani::stub(alloc::alloc::dealloc_nonnull, dealloc_stub)]
fn q_vec_padded_header_element() {
    crate::ghost::arm();
    let (h, x, y): (u8, u32, u32) = kani::any();
    let mut v = Vec::with_capacity(2);
    v.push(x);
    v.push(y);
    let a = Arc::from_header_and_vec(h, v);
    assert!(a.header == h && a.slice.len() == 2 && a.slice[0] == x && a.slice[1] == y, "contents differ from the input");
    assert!((a.slice.as_ptr() as usize) % 4 == 0 && n_live() == 1);
    drop(a);
    let mut w = Vec::with_capacity(1);
    w.push(kani::any::<u64>());
    let w0 = w[0];
    let b = Arc::from_header_and_vec(kani::any::<u16>(), w);
    assert!(b.slice[0] == w0 && (b.slice.as_ptr() as usize) % 8 == 0);
    drop(b);
    assert!(n_live() == 0);
}
