//! C11 — raw pointers round-trip to the same allocation; handles are one word wide.
//!
//! BOUNDS: payload shapes (size, align): (1,1) (3,1) (4,2) (8,4) (8,8) (16,16) (64,32) (64,64)
//!   (32,16), ZST, ZST align 16, Drop-tracked value; slices of len 0..=3 (concrete per harness),
//!   str (len 3), dyn Trait over sized shapes; every into/from pairing (into_raw/from_raw,
//!   from_raw_slice, into_raw_offset/from_raw_offset, ArcBorrow::from_ptr, ThinArc into_raw/
//!   from_raw, arc-swap RefCnt into_ptr/as_ptr/from_ptr, cast to dyn then from_raw); the count
//!   word is symbolic in the round-trip steps.
//! ASSUME: alloc/dealloc logging stubs. Interpretation (DESIGN C11): ThinArc's opaque pointer
//!   (ptr/heap_ptr/as_ptr/into_raw) is the *block* address, identical across the four accessors
//!   and across clones, and round-trips through from_raw.
//! OUTSIDE: shapes not listed; feature combinations without arc-swap/unsize; `Arc<dyn Trait>` handles
//!   whose concrete payload is aligned above 8 (Kani models the offset of a dyn tail field from the
//!   static alignment, so every projection to such a payload - as_ptr, Deref, drop_in_place of the
//!   data field - is mis-placed in the model; no such handle is made, dyn over shapes aligned <= 8 is).
use crate::ghost::*;
use crate::kinds::*;
use core::mem::{forget, size_of, transmute_copy, ManuallyDrop};
use triomphe::*;

macro_rules! h {
    ($name:ident, $unw:expr, $body:expr) => {
        #[kani::proof]
        #[kani::unwind($unw)]
        #[kani::stub(std::alloc::alloc, alloc_stub)]
        #[kani::stub(alloc::alloc::dealloc_nonnull, dealloc_stub)]
        fn $name() {
            crate::ghost::arm();
            $body;
            kani::cover!(true, "end of harness reached");
        }
    };
}

#[kani::proof]
fn q_sizes_and_niches() {
    crate::ghost::arm();
    const W: usize = size_of::<usize>();
    macro_rules! one_word {
        ($($t:ty),*) => {$(
            assert!(size_of::<$t>() == W, "handle is not one pointer wide");
            assert!(size_of::<Option<$t>>() == W, "null niche not available to Option");
        )*};
    }
    one_word!(Arc<u8>, Arc<S33a32>, Arc<Zst>, OffsetArc<u8>, OffsetArc<S1a64>, ThinArc<u8, u16>, ThinArc<(), S5a16>,
              ArcBorrow<'static, u8>, ArcBorrow<'static, S33a32>, UniqueArc<u64>, ArcUnion<u8, u64>, ArcUnion<Zst, S33a32>);
    macro_rules! two_words {
        ($($t:ty),*) => {$(
            assert!(size_of::<$t>() == 2 * W, "fat handle is not two pointers wide");
            assert!(size_of::<Option<$t>>() == 2 * W, "null niche not available to Option");
        )*};
    }
    two_words!(Arc<[u8]>, Arc<str>, Arc<dyn Tr>, Arc<HeaderSlice<u32, [u16]>>, UniqueArc<[u64]>, ArcBorrow<'static, [u8]>);
    kani::cover!(true, "reached");
}

/// address facts that need no symbolic count
fn addr_facts<T: Copy + Pl + Tr + 'static>(v: T) {
    let a = Arc::new(v);
    let blk = block_nr(0);
    assert!(a.heap_ptr() as usize == blk.addr, "heap_ptr is not the start of the block from the allocator");
    let d = &*a as *const T;
    assert!(Arc::as_ptr(&a) == d, "as_ptr is not the address Deref yields");
    let b = a.clone();
    assert!(Arc::as_ptr(&b) == d && b.heap_ptr() == a.heap_ptr(), "clone reports a different address");
    let moved = [b];
    assert!(Arc::as_ptr(&moved[0]) == d, "moving the handle changed the address");
    let [b] = moved;
    // ArcBorrow / OffsetArc bit patterns are the value's address
    let bor = a.borrow_arc();
    assert!(unsafe { transmute_copy::<ArcBorrow<T>, usize>(&bor) } == d as usize, "ArcBorrow bit pattern is not the value's address");
    assert!(bor.get() as *const T == d);
    let o = Arc::into_raw_offset(b);
    assert!(unsafe { transmute_copy::<OffsetArc<T>, usize>(&o) } == d as usize, "OffsetArc bit pattern is not the value's address");
    assert!(&*o as *const T == d);
    let b = Arc::from_raw_offset(o);
    assert!(Arc::ptr_eq(&a, &b));
    // the OffsetArc lent by with_raw_offset_arc is the same allocation, bit pattern = the value's address,
    // and lending it is not an operation on the count
    let before = Arc::count(&a);
    a.with_raw_offset_arc(|o| {
        assert!(unsafe { transmute_copy::<OffsetArc<T>, usize>(o) } == d as usize, "lent OffsetArc's bit pattern is not the value's address");
        assert!(Arc::count(&a) == before, "with_raw_offset_arc changed the count while lending");
    });
    assert!(Arc::count(&a) == before, "with_raw_offset_arc changed the count");
    // into_raw / from_raw
    let p = Arc::into_raw(b);
    assert!(p == d, "into_raw is not the address of the value");
    let fb = unsafe { ArcBorrow::from_ptr(p) };
    assert!(fb.with_arc(|x| x.heap_ptr() as usize) == blk.addr, "ArcBorrow::from_ptr recovers a different allocation");
    let b = unsafe { Arc::from_raw(p) };
    assert!(b.heap_ptr() as usize == blk.addr && Arc::count(&b) == 2 && b.sig() == v.sig());
    // cast to a trait-object pointer, then from_raw
    // Kani 0.68 computes the offset of an unsized `dyn` tail field from the static alignment of the struct
    // head, not from the vtable, so every projection to the payload of an `ArcInner<dyn Tr>` whose concrete
    // payload is aligned above the count word is mis-modelled (natively correct): no dyn handle is made for
    // those shapes; see OUTSIDE.
    let dy: Option<Arc<dyn Tr>> = if core::mem::align_of::<T>() <= 8 {
        let p = Arc::into_raw(b) as *const dyn Tr;
        let dy: Arc<dyn Tr> = unsafe { Arc::from_raw(p) };
        assert!(dy.heap_ptr() as usize == blk.addr, "from_raw after a dyn cast recovers a different allocation");
        assert!(Arc::as_ptr(&dy) as *const u8 == d as *const u8, "as_ptr of the dyn handle is not the value's address");
        assert!(Arc::count(&dy) == 2);
        assert!(dy.v() == v.v());
        Some(dy)
    } else {
        drop(b);
        None
    };
    // arc-swap glue
    let sp = <Arc<T> as arc_swap::RefCnt>::as_ptr(&a);
    assert!(sp as *const T == d);
    drop(dy);
    assert!(Arc::count(&a) == 1 && n_live() == 1);
    drop(a);
    assert!(n_live() == 0);
}
macro_rules! shape_cell {
    ($facts:ident, $rt_raw:ident, $rt_off:ident, $t:ty, $mk:expr) => {
        h!($facts, 3, addr_facts::<$t>($mk));
        h!($rt_raw, 3, {
            step_convert::<Arc<$t>, Raw<$t>>(Arc::new($mk), 0)
        });
        h!($rt_off, 3, {
            step_convert::<OffsetArc<$t>, Swp<$t>>(Arc::new($mk), 0)
        });
    };
}
fn bytes<const N: usize>() -> [u8; N] {
    let mut b = [0x5au8; N];
    if N > 0 {
        b[0] = kani::any();
        b[N - 1] = kani::any();
    }
    b
}
shape_cell!(q_facts_s1a1, q_rt_raw_s1a1, r0_rt_off_s1a1, S1a1, S1a1(bytes()));
shape_cell!(r0_facts_s3a1, r1_rt_raw_s3a1, r2_rt_off_s3a1, S3a1, S3a1(bytes()));
shape_cell!(r1_facts_s3a2, r2_rt_raw_s3a2, q_rt_off_s3a2, S3a2, S3a2(bytes()));
shape_cell!(t_facts_s5a4, t_rt_raw_s5a4, t_rt_off_s5a4, S5a4, S5a4(bytes()));
shape_cell!(r2_facts_s8a8, r0_rt_raw_s8a8, r1_rt_off_s8a8, S8a8, S8a8(bytes()));
shape_cell!(q_facts_s5a16, q_rt_raw_s5a16, q_rt_off_s5a16, S5a16, S5a16(bytes()));
shape_cell!(q_facts_s33a32, r1_rt_raw_s33a32, r0_rt_off_s33a32, S33a32, S33a32(bytes()));
shape_cell!(r0_facts_s1a64, q_rt_raw_s1a64, r2_rt_off_s1a64, S1a64, S1a64(bytes()));
shape_cell!(t_facts_s17a16, t_rt_raw_s17a16, t_rt_off_s17a16, S17a16, S17a16(bytes()));
shape_cell!(q_facts_zst, r2_rt_raw_zst, r1_rt_off_zst, Zst, Zst);
shape_cell!(r1_facts_zst16, q_rt_raw_zst16, r0_rt_off_zst16, Zst16, Zst16);

// ---- unsized payloads: slices (from_raw and from_raw_slice), str, dyn
fn slice_roundtrip<T: Copy + Pl, const N: usize>(vals: [T; N]) {
    let a: Arc<[T]> = Arc::from(&vals[..]);
    let (st, h) = enter::<Arc<[T]>>(a, 0);
    let d = &*h as *const [T];
    assert!(Arc::as_ptr(&h) == d);
    let p = Arc::into_raw(h);
    assert!(p == d && p.len() == N);
    let back = unsafe { Arc::from_raw_slice(p) };
    st.alive(st.c);
    assert!(back.heap_ptr() as usize == st.block && back.len() == N);
    let p = Arc::into_raw(back);
    let back = unsafe { Arc::from_raw(p) };
    st.alive(st.c);
    assert!(back.heap_ptr() as usize == st.block && back.len() == N);
    st.covers();
    forget(back);
}
h!(q_slice_rt_u16_n2, 5, slice_roundtrip::<u16, 2>(kani::any()));
h!(q_slice_rt_u8_n0, 5, slice_roundtrip::<u8, 0>([]));
h!(r1_slice_rt_u64_n3, 5, slice_roundtrip::<u64, 3>(kani::any()));
h!(q_slice_rt_s5a16_n1, 5, slice_roundtrip::<S5a16, 1>([S5a16(bytes())]));
h!(r2_slice_rt_s33a32_n2, 5, slice_roundtrip::<S33a32, 2>([S33a32(bytes()), S33a32(bytes())]));
h!(t_slice_rt_s3a2_n3, 5, slice_roundtrip::<S3a2, 3>([S3a2(bytes()); 3]));
h!(q_str_rt, 5, {
    let (a, n) = mk_str_n::<3>();
    step_convert::<Arc<str>, RawU<str>>(a, n)
});
h!(q_dyn_rt, 5, {
    let (a, n) = mk_dyn();
    step_convert::<Arc<dyn Tr>, RawU<dyn Tr>>(a, n)
});
// ---- ThinArc: opaque pointer
fn thin_ptrs<H: Copy + Pl, T: Copy + Pl, const N: usize>(hv: H, vals: [T; N]) {
    let t = ThinArc::from_header_and_slice(hv, &vals[..]);
    let blk = block_nr(0).addr;
    let fat = ManuallyDrop::new(Arc::from_thin(unsafe { core::ptr::read(&t) }));
    let (st, t) = enter::<ThinArc<H, T>>(Arc::from_thin(t), 0);
    assert!(st.block == blk);
    assert!(t.ptr() as usize == blk && t.heap_ptr() as usize == blk && t.as_ptr() as usize == blk, "ThinArc pointer accessors disagree with the block address");
    assert!(unsafe { transmute_copy::<ThinArc<H, T>, usize>(&t) } == blk);
    let c2 = t.clone();
    assert!(c2.as_ptr() == t.as_ptr(), "clone reports a different address");
    st.alive(st.c + 1);
    let raw = c2.into_raw();
    assert!(raw as usize == blk);
    let back = unsafe { ThinArc::<H, T>::from_raw(raw) };
    st.alive(st.c + 1);
    assert!(back.heap_ptr() as usize == blk && back.slice.len() == N);
    // arc-swap glue for ThinArc
    let p = <ThinArc<H, T> as arc_swap::RefCnt>::into_ptr(back);
    assert!(p as usize == blk);
    assert!(<ThinArc<H, T> as arc_swap::RefCnt>::as_ptr(&t) as usize == blk);
    let back = unsafe { <ThinArc<H, T> as arc_swap::RefCnt>::from_ptr(p) };
    st.alive(st.c + 1);
    drop(back);
    st.alive(st.c);
    st.covers();
    forget(t);
}
h!(q_thin_ptrs_u8_u16_n2, 5, thin_ptrs::<u8, u16, 2>(kani::any(), kani::any()));
h!(q_thin_ptrs_unit_s5a16_n1, 5, thin_ptrs::<(), S5a16, 1>((), [S5a16(bytes())]));
h!(r1_thin_ptrs_s33a32_u8_n3, 5, thin_ptrs::<S33a32, u8, 3>(S33a32(bytes()), kani::any()));
h!(r2_thin_ptrs_u64_u64_n0, 5, thin_ptrs::<u64, u64, 0>(kani::any(), []));

// ---- unsize coercions of UniqueArc and ArcBorrow keep allocation, contents and count
h!(q_unsize_unique_and_borrow, 5, {
    let x: u16 = kani::any();
    let u = UniqueArc::new([x, 5u16, 6u16]);
    let blk = block_nr(0).addr;
    let us: UniqueArc<[u16]> = unsize::CoerceUnsize::unsize(u, unsize::Coercion::to_slice());
    assert!(us.len() == 3 && us[0] == x && us[2] == 6);
    let a = us.shareable();
    assert!(a.heap_ptr() as usize == blk && Arc::count(&a) == 1 && nalloc() == 1, "unsizing a UniqueArc must keep the allocation and stay a sole owner");
    let b = Arc::new([x, 1u16]);
    let c = b.clone();
    let bs: ArcBorrow<[u16]> = unsize::CoerceUnsize::unsize(b.borrow_arc(), unsize::Coercion::to_slice());
    let cs: ArcBorrow<[u16]> = unsize::CoerceUnsize::unsize(c.borrow_arc(), unsize::Coercion::to_slice());
    assert!(bs == cs, "unsized borrows of one allocation must compare equal");
    assert!(Arc::count(&b) == 2, "unsizing a borrow must not touch the count");
    drop(a);
    drop(b);
    drop(c);
    assert!(n_live() == 0);
});

// ---- ptr_eq: same allocation <=> true, for every kind that offers it; dyn metadata is ignored
h!(q_ptr_eq, 5, {
    let x: u16 = kani::any();
    let a = Arc::new(x);
    let b = a.clone();
    let c = Arc::new(x);
    assert!(Arc::ptr_eq(&a, &b) && !Arc::ptr_eq(&a, &c), "Arc::ptr_eq is not allocation identity");
    assert!(ArcBorrow::ptr_eq(&a.borrow_arc(), &b.borrow_arc()) && !ArcBorrow::ptr_eq(&a.borrow_arc(), &c.borrow_arc()));
    let d1: Arc<dyn Tr> = unsafe { Arc::from_raw(Arc::into_raw(b) as *const dyn Tr) };
    let d2: Arc<dyn Tr> = unsafe { Arc::from_raw(Arc::into_raw(c) as *const dyn Tr) };
    let d3 = d1.clone();
    assert!(Arc::ptr_eq(&d1, &d3) && !Arc::ptr_eq(&d1, &d2));
    let u1 = ArcUnion::<u16, u32>::from_first(a);
    let u2 = u1.clone();
    assert!(ArcUnion::ptr_eq(&u1, &u2));
});
