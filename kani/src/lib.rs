#![allow(unused, deprecated, clippy::all)]
pub mod ghost;
#[cfg(kani)]
pub mod kinds;
#[cfg(kani)]
mod c01;
#[cfg(kani)]
mod c02;
#[cfg(kani)]
mod c03;
#[cfg(kani)]
mod c04;
#[cfg(kani)]
mod c05;
#[cfg(kani)]
mod c06;
#[cfg(kani)]
mod c07;
#[cfg(kani)]
mod c08;
#[cfg(kani)]
mod c09;
#[cfg(kani)]
mod c10;
#[cfg(kani)]
mod c11;
#[cfg(kani)]
mod c12;
#[cfg(kani)]
mod c14;
#[cfg(kani)]
mod c15;
#[cfg(kani)]
mod c16;
#[cfg(kani)]
mod c17;
