#![allow(unused, deprecated, clippy::all)]
pub mod ghost;
#[cfg(kani)]
mod c16;
