//! Native replay for C16 in the no_std configuration of triomphe: preset the count word above the limit,
//! clone inside catch_unwind. Correct behaviour: the process is killed (double panic => abort).
//! If control comes back here the overflow guard was a catchable panic: prints SURVIVED and exits 1.
use std::panic::{catch_unwind, AssertUnwindSafe};
use triomphe::Arc;
fn main() {
    std::panic::set_hook(Box::new(|_| {}));
    let a = Arc::new(7usize);
    // repr(C) ArcInner { count, data }: the count word is the first word of the block (checked by C05/C11)
    let cnt = a.heap_ptr() as *mut usize;
    assert_eq!(unsafe { *cnt }, 1);
    unsafe { *cnt = (isize::MAX as usize) + 2 };
    let r = catch_unwind(AssertUnwindSafe(|| {
        let b = a.clone();
        std::mem::forget(b);
    }));
    println!("SURVIVED a clone past the limit (caught_panic={})", r.is_err());
    std::mem::forget(a);
    std::process::exit(1);
}
