"""Self-test of the RC11 encoding on hand-written templates with known verdicts (run before every
Engine W check; a wrong answer makes the check inconclusive, never 'holds')."""
from z3 import BitVec, BitVecVal, BoolVal
import rc11

r1 = BitVec("r1", 64)
BV = lambda v: BitVecVal(v, 64)


def drop_template(sub_ord, sync):
    """the classic protocol with configurable orderings: sync in {'acq-load','rlx-load','acq-fence','none'}"""
    tail = {"acq-load": [{"kind": "R", "loc": ("cnt", "a0"), "ord": "acq", "rval": BitVec("r2", 64)}],
            "rlx-load": [{"kind": "R", "loc": ("cnt", "a0"), "ord": "rlx", "rval": BitVec("r2", 64)}],
            "acq-fence": [{"kind": "F", "ord": "acq"}], "none": []}[sync]
    rmw = {"kind": "RMW", "loc": ("cnt", "a0"), "ord": sub_ord, "rval": r1, "wval": r1 - 1, "op": "fetch_sub"}
    return [{"pc": [r1 != 1], "events": [rmw], "result": ("ret", None), "fn": "litmus"},
            {"pc": [r1 == 1], "events": [rmw] + tail + [{"kind": "DESTROY", "loc": ("data", "a0")}, {"kind": "FREE", "loc": ("blk", "a0")}],
             "result": ("ret", None), "fn": "litmus"}]


CASES = [  # (sub ordering, final sync, expected verdict for two threads doing read;drop)
    ("rel", "acq-load", "holds"),
    ("rel", "acq-fence", "holds"),
    ("acqrel", "none", "holds"),
    ("rlx", "acq-load", "violation"),
    ("rel", "rlx-load", "violation"),
    ("rel", "none", "violation"),
    ("sc", "acq-load", "holds"),
]


class _V:
    def __init__(s, variant): s.variant = variant


def cas_get_mut_template(succ_ord, weak):
    """get_mut whose uniqueness test is compare_exchange(1, 1, succ_ord, Relaxed): two mutually exclusive
    events picked by the per-instance choice k (encoding of mirsym's compare-exchange)."""
    k, rs, rf = BitVec("k9", 64), BitVec("r8", 64), BitVec("r9", 64)
    ok = {"kind": "RMW", "loc": ("cnt", "a0"), "ord": succ_ord, "rval": rs, "wval": BV(1), "op": "cas", "fresh": [k]}
    fail = {"kind": "R", "loc": ("cnt", "a0"), "ord": "rlx", "rval": rf, "op": "cas-fail", "fresh": [k]}
    return [{"pc": [k == 1, rs == 1], "events": [ok], "result": ("ret", _V("Some")), "fn": "litmus"},
            {"pc": [k == 0] + ([] if weak else [rf != 1]), "events": [fail], "result": ("ret", _V("None")), "fn": "litmus"}]


CAS_CASES = [("acq", False, "holds"), ("acq", True, "holds"), ("rlx", False, "violation"), ("acqrel", False, "holds")]


def plain_get_mut_template():
    """get_mut whose uniqueness test reads the count word non-atomically: a data race with every concurrent RMW"""
    r = BitVec("r7", 64)
    rd = {"kind": "R", "loc": ("cnt", "a0"), "ord": "na", "rval": r, "op": "plain-read"}
    return [{"pc": [r == 1], "events": [rd], "result": ("ret", _V("Some")), "fn": "litmus"},
            {"pc": [r != 1], "events": [rd], "result": ("ret", _V("None")), "fn": "litmus"}]


def run():
    bad = []
    T = {"drop": drop_template("rel", "acq-load"), "get_mut": plain_get_mut_template()}
    sc = rc11.Scenario(T, [["get_mut_write", "drop"], ["read", "drop"]], {}, "litmus plain count read")
    r = rc11.decide(sc, 60000)
    if r["verdict"] != "violation" or not any("count word" in d for _, d in r.get("violated", [])):
        bad.append(f"plain read of the count: expected a race on the count word, encoder says {r['verdict']} {r.get('violated')}")
    elif not rc11.check_witness(r["witness"])[0]:
        bad.append("plain read of the count: witness rejected by the independent checker: " + str(rc11.check_witness(r["witness"])[1]))
    for succ_ord, weak, want in CAS_CASES:
        T = {"drop": drop_template("rel", "acq-load"), "get_mut": cas_get_mut_template(succ_ord, weak)}
        sc = rc11.Scenario(T, [["get_mut_write", "drop"], ["read", "drop"]], {}, f"litmus cas {succ_ord}/{weak}")
        r = rc11.decide(sc, 60000)
        if r["verdict"] != want:
            bad.append(f"cas({succ_ord},weak={weak}): expected {want}, encoder says {r['verdict']}")
        if r["verdict"] == "violation":
            ok, why = rc11.check_witness(r["witness"])
            if not ok:
                bad.append(f"cas({succ_ord},weak={weak}): witness rejected by the independent checker: {why}")
    for sub_ord, sync, want in CASES:
        T = {"drop": drop_template(sub_ord, sync)}
        sc = rc11.Scenario(T, [["read", "drop"], ["read", "drop"]], {}, f"litmus {sub_ord}/{sync}")
        r = rc11.decide(sc, 60000)
        if r["verdict"] != want:
            bad.append(f"drop({sub_ord},{sync}): expected {want}, encoder says {r['verdict']}")
        if r["verdict"] == "violation":
            ok, why = rc11.check_witness(r["witness"])
            if not ok:
                bad.append(f"drop({sub_ord},{sync}): witness rejected by the independent checker: {why}")
    return bad


if __name__ == "__main__":
    import time
    t = time.time()
    b = run()
    print("litmus:", "ok" if not b else b, round(time.time() - t, 1), "s")
