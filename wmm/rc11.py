"""Engine W, part 2: compose bounded thread programs from the MIR-derived event templates and decide,
with an RC11 axiomatic encoding in SMT, whether ANY consistent execution violates the property
(DESIGN.md 5.3-5.5).  The solver's free variables are the reads-from map, the modification order
and the values read; one query therefore ranges over every interleaving and every legally stale
load of the scenario.
"""
import itertools, time
from z3 import (BitVec, BitVecVal, Bool, BoolVal, Int, And, Or, Not, Implies, Solver, sat, unsat, unknown,
                substitute, simplify, is_true, is_false, z3util, ULE, If, Sum)

REL = {"rel", "acqrel", "sc"}
ACQ = {"acq", "acqrel", "sc"}
BV = lambda v: BitVecVal(v, 64)


class Ev:
    __slots__ = ("i", "th", "kind", "loc", "ord", "guard", "rval", "wval", "label", "opidx")

    def __init__(s, i, th, kind, loc, ord, guard, rval=None, wval=None, label="", opidx=-1):
        s.i, s.th, s.kind, s.loc, s.ord, s.guard, s.rval, s.wval, s.label, s.opidx = i, th, kind, loc, ord, guard, rval, wval, label, opidx

    def is_read(s):
        return s.kind in ("R", "RMW")

    def is_write(s):
        return s.kind in ("W", "RMW", "INIT")

    def __repr__(s):
        return f"e{s.i}:T{s.th}:{s.kind}({s.loc},{s.ord}){s.label}"


class Unsupported(Exception):
    pass


def exactly_one(bs):
    if not bs:
        return BoolVal(False)
    amo = [Not(And(a, b)) for a, b in itertools.combinations(bs, 2)]
    return And(Or(bs), *amo)


class Scenario:
    """threads: list of op lists; init_count handles are handed out one per thread (threads listed in
    `spawned` get theirs from a clone performed by their parent instead)."""

    def __init__(s, templates, threads, spawned=None, name="", joins=None):
        s.t = templates
        s.name = name
        s.evs = []
        s.extra_sb = []  # (event a, event b): spawn edges
        s.outcomes = []  # guards under which the value was destroyed / moved out
        s.cons = []
        s.ninst = 0
        s.threads = threads
        s.spawned = spawned or {}
        # joins: child -> (parent, op index): every event of the child happens-before the parent's
        # events from that op on (a scoped thread that borrowed the parent's handle and was joined)
        s.joins = joins or {}
        s.first_ev = {}
        s.build()

    def ev(s, th, kind, loc, ord, guard, **kw):
        e = Ev(len(s.evs), th, kind, loc, ord, guard, **kw)
        s.evs.append(e)
        s.first_ev.setdefault(th, e)
        return e

    # -- one template instance.  Paths of a template share their common event prefix (the fork happens on
    #    a value read by a shared event), so events are emitted once per trie node; an event executes iff
    #    the execution follows one of the paths through it.
    def inst(s, th, op, g, opidx):
        paths = s.t[op]
        s.ninst += 1
        inst_id = s.ninst
        subs = [dict() for _ in paths]          # per path: template var name -> fresh var
        through = {}                            # event index -> list of path indices
        created = []
        fresh_map = {}                          # template-level free variables (e.g. a CAS outcome choice): one per instance

        def sig(e):
            return (e["kind"], e.get("loc"), e.get("ord"), e.get("op"), e.get("note"))

        def emit(group, depth):
            # group: path indices sharing events[0:depth]
            buckets = {}
            for pi in group:
                evs = paths[pi]["events"]
                if depth < len(evs):
                    buckets.setdefault(sig(evs[depth]), []).append(pi)
            for sg, members in buckets.items():
                e = paths[members[0]]["events"][depth]
                k = e["kind"]
                lab = f"{op}.{e.get('op') or e.get('note') or k}"
                ne = None
                if k in ("R", "RMW", "W"):
                    if e["loc"] != ("cnt", "a0"):
                        raise Unsupported(f"atomic access to {e['loc']} in template {op}")
                    ne = s.ev(th, k, "cnt", e["ord"], None, label=lab, opidx=opidx)
                    if "rval" in e:
                        fv = BitVec(f"rv_{inst_id}_{ne.i}", 64)
                        ne.rval = fv
                        for pi in members:
                            subs[pi][str(paths[pi]["events"][depth]["rval"])] = fv
                    for v in e.get("fresh", []):
                        fv = fresh_map.setdefault(str(v), BitVec(f"fv_{inst_id}_{v}", 64))
                        for pi in members:
                            subs[pi][str(v)] = fv
                    if "wval" in e:
                        w = e["wval"]
                        sub = [(BitVec(k2, 64), v) for k2, v in subs[members[0]].items()]
                        ne.wval = BV(w) if isinstance(w, int) else (substitute(w, *sub) if sub else w)
                elif k == "F":
                    ne = s.ev(th, "F", None, e["ord"], None, label=lab, opidx=opidx)
                elif k == "Rna":
                    if e["loc"] == ("data", "a0"):
                        ne = s.ev(th, "Rna", "data", "na", None, label=lab, opidx=opidx)
                        if e.get("note") == "move-out":
                            ne.label += " [outcome]"
                elif k == "DESTROY":
                    if e["loc"] == ("data", "a0"):
                        ne = s.ev(th, "Wna", "data", "na", None, label=f"{op}.destroy [outcome]", opidx=opidx)
                elif k == "FREE":
                    if e["loc"] == ("blk", "a0"):
                        ne = s.ev(th, "FREE", "blk", "na", None, label=f"{op}.free", opidx=opidx)
                elif k in ("ALLOC", "DESTROY-local", "ABORT"):
                    pass  # thread-local allocation / value, or end of the thread: nothing on the shared block
                else:
                    raise Unsupported(f"event kind {k} in template {op}")
                if ne is not None:
                    through[ne.i] = list(members)
                    created.append(ne)
                emit(members, depth + 1)

        emit(list(range(len(paths))), 0)
        pcs = []
        for pi, p in enumerate(paths):
            sub = [(BitVec(k2, 64), v) for k2, v in subs[pi].items()]
            pc = [substitute(c, *sub) if sub else c for c in p["pc"]]
            pcs.append(And(*pc) if pc else BoolVal(True))
        # an operation that is reached takes one of its paths (a tautology for templates that fork on a value
        # read by a shared event; it ties a compare-exchange's outcome choice to the value it actually reads)
        s.cons.append(Implies(g, Or(pcs)))
        for ne in created:
            ne.guard = simplify(And(g, Or([pcs[pi] for pi in through[ne.i]])))
            if "[outcome]" in ne.label:
                s.outcomes.append(ne.guard)
        return [(simplify(And(g, pcs[pi])), p) for pi, p in enumerate(paths)]

    @staticmethod
    def merge(branches):
        """branches with the same number of held handles continue identically: merge their guards"""
        by = {}
        for g, h in branches:
            by.setdefault(h, []).append(g)
        return [(simplify(Or(gs)) if len(gs) > 1 else gs[0], h) for h, gs in by.items()]

    def build(s):
        n_init = sum(1 for i in range(len(s.threads)) if i not in s.spawned)
        s.init = s.ev("init", "INIT", "cnt", "na", BoolVal(True), wval=BV(n_init), label="init")
        pending_spawn = []
        for th, prog in enumerate(s.threads):
            # branches: (guard, handles this thread holds on the shared allocation)
            branches = [(BoolVal(True), 0 if th in s.joins else 1)]
            for opidx, op in enumerate(prog):
                nb = []
                for g, h in branches:
                    if op == "bread":      # read through the parent's handle (scoped borrow)
                        s.ev(th, "Rna", "data", "na", g, label="deref.read(borrowed)", opidx=opidx)
                        nb.append((g, h))
                        continue
                    if op == "bclone":     # clone through the parent's handle (scoped borrow)
                        for guard, p in s.inst(th, "clone", g, opidx):
                            if p["result"][0] == "ret":
                                nb.append((guard, h + 1))
                        continue
                    if h == 0:
                        nb.append((g, h))
                        continue
                    if op == "read":
                        s.ev(th, "Rna", "data", "na", g, label="deref.read", opidx=opidx)
                        nb.append((g, h))
                    elif op == "give":
                        nb.append((g, h - 1))  # hands one owned handle to a spawned thread (no event)
                    elif op == "count":
                        for guard, p in s.inst(th, "strong_count", g, opidx):
                            nb.append((guard, h))
                    elif op == "clone":
                        for guard, p in s.inst(th, "clone", g, opidx):
                            if p["result"][0] == "ret":
                                nb.append((guard, h + 1))
                    elif op == "drop":
                        for guard, p in s.inst(th, "drop", g, opidx):
                            nb.append((guard, h - 1))
                    elif op == "get_mut_write":
                        for guard, p in s.inst(th, "get_mut", g, opidx):
                            r = p["result"][1]
                            if getattr(r, "variant", None) == "Some":
                                s.ev(th, "Wna", "data", "na", guard, label="get_mut.write", opidx=opidx)
                            nb.append((guard, h))
                    elif op == "try_unwrap":
                        for guard, p in s.inst(th, "try_unwrap", g, opidx):
                            r = p["result"][1]
                            if getattr(r, "variant", None) == "Ok":
                                nb.append((guard, h - 1))
                            else:  # Err(handle): the caller drops it
                                for g2, p2 in s.inst(th, "drop", guard, opidx):
                                    nb.append((g2, h - 1))
                    elif op == "try_unique_drop":
                        for guard, p in s.inst(th, "try_unique", g, opidx):
                            # Ok(UniqueArc) or Err(Arc): either way the caller drops what it got
                            for g2, p2 in s.inst(th, "drop", guard, opidx):
                                nb.append((g2, h - 1))
                    elif op == "unwrap_or_clone":
                        for guard, p in s.inst(th, "unwrap_or_clone", g, opidx):
                            nb.append((guard, h - 1))
                    elif op == "make_mut_write":
                        for guard, p in s.inst(th, "make_mut", g, opidx):
                            r = p["result"][1]
                            root = getattr(r, "root", None)
                            if root == ("H", "a0"):
                                s.ev(th, "Wna", "data", "na", guard, label="make_mut.write", opidx=opidx)
                                nb.append((guard, h))
                            elif root is not None and root[0] == "H":
                                nb.append((guard, h - 1))  # now points at its own fresh copy
                            else:
                                raise Unsupported(f"make_mut result {r!r}")
                    else:
                        raise Unsupported(f"scenario op {op}")
                    # spawn edges: child thread starts after this op of the parent
                branches = s.merge(nb)
                for child, (par, at) in s.spawned.items():
                    if par == th and at == opidx:
                        pending_spawn.append((child, len(s.evs) - 1))
            # every thread must end owning nothing on the shared allocation
            for g, h in branches:
                if h != 0:
                    s.cons.append(Not(g)) if False else None
            s.final = getattr(s, "final", []) + [(th, branches)]
        for child, last_parent_ev in pending_spawn:
            if child in s.first_ev:
                s.extra_sb.append((s.evs[last_parent_ev].i, child))

    # ------------------------------------------------------------------ encoding
    def encode(s):
        evs = s.evs
        n = len(evs)
        S = Solver()
        ex = [e.guard for e in evs]
        S.add(*s.cons)
        init = s.init
        sbm = [[False] * n for _ in range(n)]
        for a in evs:
            for c in evs:
                if a.th == c.th and a.i < c.i and a.th != "init":
                    sbm[a.i][c.i] = True
        for e in evs:
            if e is not init:
                sbm[init.i][e.i] = True
        for pa, child in s.extra_sb:
            # everything up to and including the parent's event is before everything in the child
            for a in evs:
                if a.th == evs[pa].th and a.i <= pa:
                    for c in evs:
                        if c.th == child:
                            sbm[a.i][c.i] = True
        for child, (par, at) in s.joins.items():
            for a in evs:
                if a.th == child:
                    for c in evs:
                        if c.th == par and c.opidx >= at:
                            sbm[a.i][c.i] = True
        cw = [e for e in evs if e.loc == "cnt" and e.is_write()]
        cr = [e for e in evs if e.loc == "cnt" and e.is_read()]
        mo = {w.i: Int(f"mo{w.i}") for w in cw}
        S.add(mo[init.i] == 0)
        for w in cw:
            if w is not init:
                S.add(Implies(ex[w.i], mo[w.i] > 0))
        for w1, w2 in itertools.combinations(cw, 2):
            S.add(Implies(And(ex[w1.i], ex[w2.i]), mo[w1.i] != mo[w2.i]))
        rf = {}
        for r in cr:
            opts = []
            for w in cw:
                if w is r:
                    continue
                v = Bool(f"rf_{w.i}_{r.i}")
                rf[(w.i, r.i)] = v
                S.add(Implies(v, And(ex[w.i], ex[r.i], r.rval == w.wval)))
                opts.append(v)
            S.add(Implies(ex[r.i], exactly_one(opts)))
            S.add(Implies(Not(ex[r.i]), Not(Or(opts))))
        RF = lambda w, r: rf.get((w.i, r.i), BoolVal(False))
        # RMW atomicity: reads its immediate mo-predecessor
        for u in cw:
            if u.kind != "RMW":
                continue
            for w in cw:
                if w is u:
                    continue
                S.add(Implies(RF(w, u), mo[w.i] < mo[u.i]))
                for w2 in cw:
                    if w2 is u or w2 is w:
                        continue
                    S.add(Implies(And(RF(w, u), ex[w2.i]), Or(mo[w2.i] < mo[w.i], mo[w2.i] > mo[u.i])))
        # release sequences rs = [W];(rf;[RMW])*  (exact unrolling)
        rmws = [e for e in cw if e.kind == "RMW"]
        cur = {(w.i, w.i): BoolVal(True) for w in cw}
        for _ in range(len(rmws)):
            nxt = dict(cur)
            for w in cw:
                for u in rmws:
                    if u is w:
                        continue
                    terms = [cur.get((w.i, u.i), BoolVal(False))]
                    for v in cw:
                        if v is u:
                            continue
                        if (w.i, v.i) in cur:
                            terms.append(And(cur[(w.i, v.i)], RF(v, u)))
                    nxt[(w.i, u.i)] = Or(terms)
            cur = nxt
        rs = cur
        relw = lambda a: a.is_write() and a.ord in REL
        acqr = lambda c: c.is_read() and c.ord in ACQ
        sw = [[BoolVal(False)] * n for _ in range(n)]
        for a in evs:
            for c in evs:
                if a.th == c.th:
                    continue
                terms = []
                srcs = []
                if a.loc == "cnt" and relw(a):
                    srcs.append(a)
                if a.kind == "F" and a.ord in REL:
                    srcs += [w for w in cw if sbm[a.i][w.i] and w.th == a.th]
                dsts = []
                if c.loc == "cnt" and acqr(c):
                    dsts.append(c)
                if c.kind == "F" and c.ord in ACQ:
                    dsts += [r for r in cr if sbm[r.i][c.i] and r.th == c.th]
                for w in srcs:
                    for r in dsts:
                        for u in cw:
                            if (w.i, u.i) in rs and (u.i, r.i) in rf:
                                terms.append(And(ex[w.i], ex[r.i], rs[(w.i, u.i)], RF(u, r)))
                if terms:
                    sw[a.i][c.i] = And(ex[a.i], ex[c.i], Or(terms))
        hb = [[Or(BoolVal(True), sw[i][j]) if sbm[i][j] else sw[i][j] for j in range(n)] for i in range(n)]
        k = 1
        rnd = 0
        while k < n:
            rnd += 1
            named = [[None] * n for _ in range(n)]
            for i in range(n):
                for j in range(n):
                    v = Bool(f"hb{rnd}_{i}_{j}")
                    S.add(v == simplify(hb[i][j]))
                    named[i][j] = v
            hb = [[Or([named[i][j]] + [And(named[i][m], named[m][j], ex[m]) for m in range(n) if m != i and m != j])
                   for j in range(n)] for i in range(n)]
            k *= 2
        HB = [[Bool(f"HB_{i}_{j}") for j in range(n)] for i in range(n)]
        for i in range(n):
            for j in range(n):
                S.add(HB[i][j] == simplify(hb[i][j]))
        for i in range(n):
            S.add(Not(HB[i][i]))
        # coherence
        for w1 in cw:
            for w2 in cw:
                if w1 is w2:
                    continue
                S.add(Implies(And(ex[w1.i], ex[w2.i], HB[w1.i][w2.i]), mo[w1.i] < mo[w2.i]))
        for r in cr:
            for w in cw:
                if w is r:
                    continue
                for w2 in cw:
                    if w2 is w or w2 is r:
                        continue
                    S.add(Implies(And(RF(w, r), ex[w2.i], HB[w2.i][r.i]), mo[w2.i] < mo[w.i]))  # CoWR
                    S.add(Implies(And(RF(w, r), ex[w2.i], HB[r.i][w2.i]), mo[w.i] < mo[w2.i]))  # CoRW
        for r1 in cr:
            for r2 in cr:
                if r1 is r2:
                    continue
                for w1 in cw:
                    for w2 in cw:
                        if w1 is w2 or w1 is r1 or w2 is r2:
                            continue
                        S.add(Implies(And(RF(w1, r1), RF(w2, r2), HB[r1.i][r2.i]), mo[w1.i] <= mo[w2.i]))  # CoRR
        # no thin air: sb U rf acyclic
        clk = [Int(f"clk{i}") for i in range(n)]
        for i in range(n):
            for j in range(n):
                if sbm[i][j]:
                    S.add(Implies(And(ex[i], ex[j]), clk[i] < clk[j]))
        for (wi, ri), v in rf.items():
            S.add(Implies(v, clk[wi] < clk[ri]))
        # ---- violation clauses
        viol = []
        blk = [e for e in evs if e.loc in ("cnt", "data", "blk") and e is not init]
        frees = [e for e in evs if e.kind == "FREE"]
        for f in frees:
            for a in blk:
                if a is f:
                    continue
                viol.append(("q1", f"{a} is not ordered before the release of the memory {f}", And(ex[a.i], ex[f.i], Not(HB[a.i][f.i])), (a.i, f.i)))
        data = [e for e in evs if e.loc == "data"]
        for a, c in itertools.combinations(data, 2):
            if a.th == c.th:
                continue
            if a.kind == "Rna" and c.kind == "Rna":
                continue
            viol.append(("q2", f"data race between {a} and {c}", And(ex[a.i], ex[c.i], Not(HB[a.i][c.i]), Not(HB[c.i][a.i])), (a.i, c.i)))
        # a plain (non-atomic) access to the count word races with every write of another thread it is not ordered with
        for a in [e for e in evs if e.loc == "cnt" and e.ord == "na" and e is not init]:
            for c in cw:
                if c is init or c.th == a.th:
                    continue
                viol.append(("q2", f"data race on the count word between the non-atomic {a} and {c}", And(ex[a.i], ex[c.i], Not(HB[a.i][c.i]), Not(HB[c.i][a.i])), (a.i, c.i)))
        # all handles are released by construction of the programs => exactly one destroy-or-move-out
        # (a payload type without drop glue - TP_needs_drop == 0, only present when the code asks - need not be "destroyed")
        nd = BitVec("TP_needs_drop", 64)
        amo = And([Not(And(a, b)) for a, b in itertools.combinations(s.outcomes, 2)]) if len(s.outcomes) > 1 else BoolVal(True)
        viol.append(("q3", "the value is not destroyed-or-moved-out exactly once", And(Not(exactly_one(s.outcomes)), Or(nd != 0, Not(amo))), None))
        viol.append(("q3", "the memory is not released exactly once", Not(exactly_one([ex[f.i] for f in frees])), None))
        return S, viol, dict(mo=mo, rf=rf, HB=HB, ex=ex, sbm=sbm, sw=sw)

    def describe(s):
        return {"name": s.name, "threads": s.threads, "spawned": {str(k): list(v) for k, v in s.spawned.items()},
                "joins": {str(k): list(v) for k, v in s.joins.items()}, "events": len(s.evs)}


def decide(sc, timeout_ms=120000):
    """returns dict(verdict='holds'|'violation'|'unknown', ...)"""
    t0 = time.time()
    S, viol, aux = sc.encode()
    S.set("timeout", timeout_ms)
    # vacuity: the scenario itself must be executable
    r0 = S.check()
    if r0 != sat:
        return {"verdict": "unknown", "why": f"scenario has no consistent execution at all ({r0})", "secs": time.time() - t0, "solver": S, "aux": aux}
    S.push()
    S.add(Or([v for _, _, v, _ in viol]))
    r = S.check()
    res = {"secs": time.time() - t0, "queries": 2, "events": len(sc.evs), "clauses": len(viol)}
    if r == unsat:
        res["verdict"] = "holds"
    elif r == sat:
        m = S.model()
        hit = [(q, d, pair) for q, d, v, pair in viol if is_true(m.eval(v, model_completion=True))]
        res["verdict"] = "violation"
        res["violated"] = [(q, d) for q, d, _ in hit][:4]
        res["witness"] = witness(sc, m, aux, hit)
    else:
        res["verdict"] = "unknown"
        res["why"] = "solver returned unknown (timeout)"
    res["smt2"] = S.to_smt2() if r == sat else None
    S.pop()
    return res


def witness(sc, m, aux, hit):
    evs = sc.evs
    ex = [is_true(m.eval(e.guard, model_completion=True)) for e in evs]
    w = {"events": [], "rf": [], "mo": [], "violated": [(q, d) for q, d, _ in hit][:4], "pairs": [p for _, _, p in hit if p][:4]}
    for e in evs:
        if not ex[e.i]:
            continue
        d = {"id": e.i, "thread": e.th, "kind": e.kind, "loc": e.loc, "ord": e.ord, "label": e.label, "opidx": e.opidx}
        if e.rval is not None:
            d["rval"] = m.eval(e.rval, model_completion=True).as_long()
        if e.wval is not None:
            d["wval"] = m.eval(e.wval, model_completion=True).as_long()
        w["events"].append(d)
    for (wi, ri), v in aux["rf"].items():
        if is_true(m.eval(v, model_completion=True)):
            w["rf"].append([wi, ri])
    mo = [(m.eval(v, model_completion=True).as_long(), i) for i, v in aux["mo"].items() if ex[i]]
    w["mo"] = [i for _, i in sorted(mo)]
    w["sb"] = [[i, j] for i in range(len(evs)) for j in range(len(evs)) if aux["sbm"][i][j] and ex[i] and ex[j]]
    return w


def check_witness(w):
    """Independent, solver-free re-check of a witness: recompute hb from sb/rf/mo with the RC11
    definitions and confirm (a) consistency axioms, (b) the violated clause. Returns (ok, why)."""
    E = {e["id"]: e for e in w["events"]}
    ids = sorted(E)
    sb = set(map(tuple, w["sb"]))
    rf = {r: wv for wv, r in w["rf"]}
    mo = {e: k for k, e in enumerate(w["mo"])}
    is_w = lambda e: E[e]["kind"] in ("W", "RMW", "INIT") and E[e]["loc"] == "cnt"
    is_r = lambda e: E[e]["kind"] in ("R", "RMW") and E[e]["loc"] == "cnt"
    for r in ids:
        if is_r(r):
            if r not in rf:
                return False, f"read e{r} has no rf source"
            if E[rf[r]].get("wval") != E[r].get("rval"):
                return False, f"rf value mismatch at e{r}"
    # RMW atomicity
    for u in ids:
        if E[u]["kind"] == "RMW":
            src = rf[u]
            if mo[src] + 1 != mo[u]:
                return False, f"RMW e{u} does not read its immediate mo predecessor"
    # release sequence + sw
    def rs_members(wr):
        out = {wr}
        changed = True
        while changed:
            changed = False
            for u in ids:
                if E[u]["kind"] == "RMW" and u not in out and rf.get(u) in out:
                    out.add(u)
                    changed = True
        return out
    sw = set()
    for a in ids:
        srcs = []
        if is_w(a) and E[a]["ord"] in REL:
            srcs.append(a)
        if E[a]["kind"] == "F" and E[a]["ord"] in REL:
            srcs += [x for x in ids if is_w(x) and (a, x) in sb and E[x]["thread"] == E[a]["thread"]]
        for wr in srcs:
            for u in rs_members(wr):
                for r in ids:
                    if is_r(r) and rf.get(r) == u:
                        dsts = []
                        if E[r]["ord"] in ACQ:
                            dsts.append(r)
                        dsts += [f for f in ids if E[f]["kind"] == "F" and E[f]["ord"] in ACQ and (r, f) in sb and E[f]["thread"] == E[r]["thread"]]
                        for c in dsts:
                            if E[c]["thread"] != E[a]["thread"]:
                                sw.add((a, c))
    hb = set(sb) | sw
    changed = True
    while changed:
        changed = False
        for (a, b) in list(hb):
            for (c, d) in list(hb):
                if b == c and (a, d) not in hb:
                    hb.add((a, d))
                    changed = True
    if any((a, a) in hb for a in ids):
        return False, "hb is cyclic"
    for (a, b) in hb:
        if is_w(a) and is_w(b) and not mo[a] < mo[b]:
            return False, f"CoWW violated e{a},e{b}"
    for r in ids:
        if is_r(r):
            wsrc = rf[r]
            for w2 in ids:
                if is_w(w2) and w2 != wsrc and w2 != r:
                    if (w2, r) in hb and not mo[w2] < mo[wsrc]:
                        return False, f"CoWR violated at e{r}"
                    if (r, w2) in hb and not mo[wsrc] < mo[w2]:
                        return False, f"CoRW violated at e{r}"
    # the violated clause
    for pair in w.get("pairs", []):
        a, b = pair
        kind = E[b]["kind"]
        if kind == "FREE":
            if (a, b) in hb:
                return False, f"claimed unordered-before-free pair e{a},e{b} is hb-ordered"
        else:
            if (a, b) in hb or (b, a) in hb:
                return False, f"claimed race e{a},e{b} is hb-ordered"
    return True, "witness is an RC11-consistent execution exhibiting the violation"
