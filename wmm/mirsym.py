#!/usr/bin/env python3-vt
"""Engine W, part 1: parse `rustc -Zunpretty=mir` text of /repo's current sources and symbolically
execute the reference-counting functions into *event templates* (DESIGN.md 5.1).

A template is a list of paths; each path is (path condition over the values read, the sequence
of events, the API-level result).  Any MIR construct or callee the interpreter does not model
raises Unsupported, which the driver reports as exit 2 (never as "holds").
"""
import re, sys, itertools, copy
from z3 import BitVec, BitVecVal, BoolVal, And, Not, Solver, sat, is_bv, is_bool, simplify, ULT, ULE, UGT, UGE, BoolRef, BitVecRef, is_true, is_false

# ---------------------------------------------------------------- parsing
def split_top(s, sep=','):
    out, depth, cur = [], 0, ''
    i = 0
    while i < len(s):
        ch = s[i]
        if ch in '([{<' : depth += 1
        elif ch in ')]}': depth -= 1
        elif ch == '>' and i > 0 and s[i-1] != '-': depth -= 1
        if ch == sep and depth == 0:
            out.append(cur.strip()); cur = ''
        else: cur += ch
        i += 1
    if cur.strip(): out.append(cur.strip())
    return out

class Fn:
    def __init__(s, name, params, ret):
        s.name, s.params, s.ret = name, params, ret
        s.locals = {}; s.blocks = {}
    @property
    def method(s): return s.name.split('::')[-1] if not s.name.endswith('}') else s.name
    def __repr__(s): return f"<fn {s.name}>"

def parse_mir(text):
    fns = []; consts = {}
    lines = text.split('\n'); i = 0
    while i < len(lines):
        l = lines[i]
        m = re.match(r'^fn (.*?)\((.*)\) -> (.*) \{$', l)
        mc = re.match(r'^const (\S+): (.*) = \{$', l)
        if m:
            name, ps, ret = m.groups()
            params = []
            for p in split_top(ps):
                pm = re.match(r'_(\d+): (.*)', p)
                params.append((int(pm.group(1)), pm.group(2)))
            f = Fn(name, params, ret)
            for n, t in params: f.locals[n] = t
            i += 1; cur = None
            while lines[i] != '}':
                ln = lines[i].strip()
                lm = re.match(r'let (mut )?_(\d+): (.*);$', ln)
                bm = re.match(r'(bb\d+)( \(cleanup\))?: \{$', ln)
                if lm: f.locals[int(lm.group(2))] = lm.group(3)
                elif bm: cur = bm.group(1); f.blocks[cur] = []
                elif ln == '}' :
                    if cur is not None and lines[i].startswith('    }'): cur = None
                elif cur is not None and ln and not ln.startswith('//'): f.blocks[cur].append(ln.rstrip(';'))
                i += 1
            fns.append(f)
        elif mc:
            body = []
            i += 1
            while lines[i] != '}': body.append(lines[i].strip()); i += 1
            consts[mc.group(1)] = body
        i += 1
    return fns, consts

# places
def parse_place(s, i=0):
    if s[i] == '_':
        m = re.match(r'_(\d+)', s[i:]); return ('local', int(m.group(1))), i + len(m.group(0))
    if s.startswith('(*', i):
        inner, j = parse_place(s, i+2); assert s[j] == ')', (s, j); return ('deref', inner), j+1
    if s[i] == '(':
        inner, j = parse_place(s, i+1)
        if s[j] == '.':
            m = re.match(r'\.(\d+): ', s[j:]); k = int(m.group(1)); j += len(m.group(0))
            depth = 0; t0 = j
            while True:
                ch = s[j]
                if ch in '([{<': depth += 1
                elif ch in ']}': depth -= 1
                elif ch == '>' and s[j-1] != '-': depth -= 1
                elif ch == ')':
                    if depth == 0: break
                    depth -= 1
                j += 1
            return ('field', inner, k, s[t0:j]), j+1
        if s.startswith(' as ', j):
            e = s.index(')', j); return ('downcast', inner, s[j+4:e]), e+1
    raise ValueError(f"place? {s[i:]}")

# ---------------------------------------------------------------- values
class Ptr:
    def __init__(s, root, path=()): s.root, s.path = root, tuple(path)
    def __repr__(s): return f"Ptr({s.root},{s.path})"
    def __eq__(s, o): return isinstance(o, Ptr) and (s.root, s.path) == (o.root, o.path)
    def __hash__(s): return hash((s.root, s.path))
class Struct:
    def __init__(s, ty, fields): s.ty, s.fields = ty, list(fields)
    def __repr__(s): return f"{s.ty.split('<')[0].split('::')[-1]}{s.fields}"
class Enum:
    def __init__(s, ty, variant, fields): s.ty, s.variant, s.fields = ty, variant, list(fields)
    def __repr__(s): return f"{s.variant}{s.fields}"
class Opaque:
    def __init__(s, what): s.what = what
    def __repr__(s): return f"?{s.what}"
class FnItem:
    def __init__(s, path): s.path = path
    def __repr__(s): return f"fn:{s.path}"
MOVED = Opaque('moved-out')
UNINIT = Opaque('uninit')

class PathEnd(Exception):
    def __init__(s, why): s.why = why
class Unsupported(Exception): pass

ORD = {'Relaxed': 'rlx', 'Acquire': 'acq', 'Release': 'rel', 'AcqRel': 'acqrel', 'SeqCst': 'sc'}
BINOPS = {'Eq': lambda a, b: a == b, 'Ne': lambda a, b: a != b, 'Gt': UGT, 'Ge': UGE, 'Lt': ULT, 'Le': ULE,
          'Add': lambda a, b: a + b, 'Sub': lambda a, b: a - b, 'BitAnd': lambda a, b: a & b, 'BitOr': lambda a, b: a | b}

class State:
    def __init__(s):
        s.mem = {}      # root -> value
        s.events = []   # list of dict
        s.pc = []       # z3 bools
        s.nsym = 0; s.nheap = 0; s.nframe = 0
    def clone(s):
        c = State(); c.mem = copy.deepcopy(s.mem); c.events = list(s.events); c.pc = list(s.pc)
        c.nsym, c.nheap, c.nframe = s.nsym, s.nheap, s.nframe
        return c
    def fresh(s, tag):
        s.nsym += 1; return BitVec(f"{tag}{s.nsym}", 64)
    def ev(s, **kw): s.events.append(kw)
    def load(s, ptr):
        v = s.mem[ptr.root]
        for k in ptr.path:
            if isinstance(v, (Struct, Enum)): v = v.fields[k]
            elif isinstance(v, Ptr) and k == 0: pass       # transparent pointer newtype (NonNull/Unique/Box)
            elif isinstance(v, Opaque): v = Opaque(f"{v.what}.{k}")
            else: raise Unsupported(f"load {ptr} through {v!r}")
        return v
    def store(s, ptr, val):
        if not ptr.path: s.mem[ptr.root] = val; return
        root = copy.deepcopy(s.mem[ptr.root]); v = root
        for k in ptr.path[:-1]: v = v.fields[k]
        if isinstance(v, (Struct, Enum)): v.fields[ptr.path[-1]] = val
        else: raise Unsupported(f"store {ptr} into {v!r}")
        s.mem[ptr.root] = root

class Interp:
    def __init__(s, fns, consts, maxdepth=10):
        s.fns, s.consts, s.maxdepth = fns, consts, maxdepth
        s.results = []
        s.visited = set()   # every function whose MIR was symbolically executed
    @staticmethod
    def generic_arg(callee):
        i = callee.rfind('::<')
        if i < 0: return ''
        depth = 0; j = i + 2
        while j < len(callee):
            if callee[j] == '<': depth += 1
            elif callee[j] == '>' and callee[j-1] != '-':
                depth -= 1
                if depth == 0: return callee[i+3:j]
            j += 1
        return ''

    def const_value(s, name):
        """evaluate a crate constant from its own MIR body (straight-line bodies only)"""
        body = s.consts.get(name)
        if body is None:
            # associated / nested constants are printed with generic arguments in uses: match on the last segments
            tail = re.sub(r'::<[^>]*>', '', name)
            c = [k for k in s.consts if re.sub(r'::<[^>]*>', '', k).endswith(tail.split('::', 1)[-1]) or k.split('::')[-1] == name.split('::')[-1]]
            if len(c) != 1: raise Unsupported(f'const {name} not found (or ambiguous) in the MIR dump')
            body = s.consts[c[0]]
        known = {'core::num::<impl isize>::MAX': (1 << 63) - 1, 'core::num::<impl usize>::MAX': (1 << 64) - 1,
                 'core::num::<impl i32>::MAX': (1 << 31) - 1, 'core::num::<impl u32>::MAX': (1 << 32) - 1}
        st = State(); fr = ('C', name)
        for ln in body:
            ln = ln.rstrip(';')
            m = re.match(r'^(_\d+) = (.*)$', ln)
            if not m: continue
            rhs = m.group(2)
            mk = re.match(r'^const (.+?) as usize \(IntToInt\)$', rhs)
            if mk and mk.group(1) in known: v = BitVecVal(known[mk.group(1)], 64)
            else: v = s.eval_rvalue(st, fr, None, rhs)
            st.mem[('L', fr, int(m.group(1)[1:]))] = v
        v = st.mem.get(('L', fr, 0))
        if v is None or not is_bv(v): raise Unsupported(f'const {name}: body form not understood: {" ".join(body)[:120]}')
        return simplify(v).as_long()
    # ---- function resolution
    def find(s, method, selfhead=None, nargs=None, closure=None):
        cands = []
        for f in s.fns:
            if closure is not None:
                if f.params and f.params[0][1] == closure: cands.append(f)
                continue
            if f.name.split('::')[-1] != method: continue
            if nargs is not None and len(f.params) != nargs: continue
            if selfhead and f.params:
                p0 = f.params[0][1]
                if selfhead not in p0: continue
            cands.append(f)
        return cands
    def resolve(s, callee, nargs):
        m = re.match(r'^<(.*) as (.*?)>::(\w+)$', callee)
        if m:
            ty, trait, meth = m.groups()
            head = re.sub(r'<.*', '', ty).lstrip('&').replace('mut ', '')
            if head in ('T', 'F', 'I', 'H', 'A', 'B', 'U'): return ('generic', trait, meth)
            c = [f for f in s.find(meth, None, nargs) if head in f.params[0][1]] if head else []
            # prefer exact self type match
            ex = [f for f in c if f.params[0][1].replace('&mut ', '').replace('&', '') == ty]
            c = ex or c
            if len(c) == 1: return ('local', c[0])
            return ('extern', f"<{head} as {trait}>::{meth}")
        bare = re.sub(r'::<[^()]*?>(?=::|$)', '', callee)
        while re.search(r'::<', bare):
            # strip nested generic args conservatively
            i = bare.index('::<'); depth = 0; j = i + 2
            while True:
                if bare[j] == '<': depth += 1
                elif bare[j] == '>' and bare[j-1] != '-':
                    depth -= 1
                    if depth == 0: break
                j += 1
            bare = bare[:i] + bare[j+1:]
        parts = bare.split('::')
        meth = parts[-1]; head = parts[-2] if len(parts) > 1 else None
        if parts[0] in ('arc', 'unique_arc', 'thin_arc', 'offset_arc', 'arc_borrow', 'arc_union', 'header') or len(parts) == 1:
            sh = (parts[0] + '::' + head) if head and len(parts) > 2 else None
            c = s.find(meth, sh, nargs)
            if not c and sh:   # associated fn without self param: match on return type, then on defining module
                c = [f for f in s.find(meth, None, nargs) if sh in f.ret] or [f for f in s.find(meth, None, nargs) if f.name.startswith(parts[0] + '::')]
            if len(c) > 1 and sh: c = [f for f in c if f.name.startswith(parts[0] + '::')] or c
            if not c and len(parts) == 1: c = [f for f in s.fns if f.name == meth]
            if len(c) == 1: return ('local', c[0])
            if len(c) > 1: raise Unsupported(f'ambiguous callee {callee}: ' + ', '.join(f.name for f in c))
        if head:
            c = [f for f in s.fns if f.name.split('::')[-1] == meth and len(f.params) == nargs
                 and (head in f.name or (f.params and head in f.params[0][1]))]
            if len(c) == 1: return ('local', c[0])
        return ('extern', bare)

    # ---- evaluation
    def eval_place(s, st, fr, pl):
        """return Ptr to the place"""
        k = pl[0]
        if k == 'local': return Ptr(('L', fr, pl[1]))
        if k == 'deref':
            p = s.eval_place(st, fr, pl[1]); v = st.load(p)
            if not isinstance(v, Ptr): raise Unsupported(f"deref of {v!r}")
            return v
        if k == 'field':
            p = s.eval_place(st, fr, pl[1]); return Ptr(p.root, p.path + (pl[2],))
        if k == 'downcast': return s.eval_place(st, fr, pl[1])
    def eval_operand(s, st, fr, op):
        op = op.strip()
        if op.startswith('copy ') or op.startswith('move '):
            pl, _ = parse_place(op[5:]); p = s.eval_place(st, fr, pl); v = st.load(p)
            if isinstance(v, Opaque) and v.what == 'count' and p.root[0] == 'H' and hasattr(s, 'plain_count_read'):
                return s.plain_count_read(st, p)
            if isinstance(v, Opaque) and v.what == 'count' and p.root[0] == 'H':
                # a plain (non-atomic) read of the count word of a shared block: an event like any other read
                # of that location, but with no ordering and racing with every unordered write (rc11 q2)
                r = st.fresh('r'); st.ev(kind='R', loc=('cnt', p.root[1]), ord='na', rval=r, op='plain-read'); return r
            if op.startswith('move ') and isinstance(v, Opaque) and v.what == 'payload' and p.root[0] == 'H':
                st.ev(kind='Rna', loc=('data', p.root[1]), note='move-out')
                st.store(p, MOVED)
            return v
        if op.startswith('const '):
            c = op[6:]
            m = re.match(r'(\d+)_(usize|u64|isize|u8|u32)$', c)
            if m: return BitVecVal(int(m.group(1)), 64)
            if c == 'true': return True
            if c == 'false': return False
            if c.startswith('ZeroSized'):
                t = c.split(': ', 1)[1]
                return Opaque('closure:' + t) if t.startswith('{closure') else Opaque('zst')
            if c in ('arc::MAX_REFCOUNT', 'MAX_REFCOUNT'): return BitVecVal(s.const_value('MAX_REFCOUNT'), 64)
            if re.match(r'^[A-Za-z_][\w:<>, ]*::[A-Z][A-Z0-9_]*$', c) and not c.startswith(('core::', 'std::', 'alloc::')):
                return BitVecVal(s.const_value(c), 64)      # other crate constants: evaluated from their MIR body
            return Opaque('const:' + c)
        # function item operand (e.g. unique_arc::UniqueArc::<T>::into_inner)
        return FnItem(op)
    def eval_rvalue(s, st, fr, f, rv):
        rv = rv.strip()
        if rv.startswith(('copy ', 'move ', 'const ')):
            m = re.match(r'^(.*) as (.*) \((\w+)\)$', rv)
            if m: return s.eval_operand(st, fr, m.group(1))
            return s.eval_operand(st, fr, rv)
        for pre in ('&raw mut ', '&raw const ', '&mut ', '&'):
            if rv.startswith(pre):
                pl, _ = parse_place(rv[len(pre):]); return s.eval_place(st, fr, pl)
        m = re.match(r'^(\w+)\((.*)\)$', rv)
        if m and m.group(1) in BINOPS:
            a, b = [s.eval_operand(st, fr, x) for x in split_top(m.group(2))]
            return BINOPS[m.group(1)](a, b)
        if m and m.group(1) == 'Not':
            a = s.eval_operand(st, fr, m.group(2))
            if isinstance(a, bool): return not a
            return ~a if is_bv(a) else Not(a)
        if m and m.group(1) == 'discriminant':
            pl, _ = parse_place(m.group(2)); v = st.load(s.eval_place(st, fr, pl))
            return ('discr', v.variant)
        m = re.match(r'^std::sync::atomic::Ordering::(\w+)$', rv)
        if m: return ('ord', ORD[m.group(1)])
        m = re.match(r'^(.*?)::(\w+)\((.*)\)$', rv)   # enum variant with payload / tuple struct
        if m and '{' not in m.group(1):
            args = [s.eval_operand(st, fr, x) for x in split_top(m.group(3))]
            if m.group(2) in ('Some', 'Ok', 'Err'): return Enum(m.group(1), m.group(2), args)
            return Struct(rv.split('(')[0], args)
        m = re.match(r'^(.*?)\((.*)\)$', rv)
        if m and rv.startswith('('):   # tuple
            return Struct('tuple', [s.eval_operand(st, fr, x) for x in split_top(rv[1:-1])])
        if m and '{' not in rv:
            return Struct(m.group(1), [s.eval_operand(st, fr, x) for x in split_top(m.group(2))])
        m = re.match(r'^(.*?) \{ (.*) \}$', rv)
        if m:
            fields = [s.eval_operand(st, fr, x.split(': ', 1)[1]) for x in split_top(m.group(2))]
            return Struct(m.group(1), fields)
        m = re.match(r'^(.*)::(None)$', rv)
        if m: return Enum(m.group(1), 'None', [])
        raise Unsupported(f"rvalue {rv!r} in {f.name}")

    # ---- drop glue
    def drop_value(s, st, ty, ptr, depth, cont):
        ty = ty.strip()
        if ty.startswith('std::mem::ManuallyDrop<') or ty.startswith('&') or ty.startswith('*'): return cont(st)
        if ty.startswith('arc::Arc<'):
            fn = [f for f in s.fns if f.name.split('::')[-1] == 'drop' and f.params[0][1].startswith('&mut arc::Arc<')][0]
            return s.call_fn(st, fn, [ptr], depth, lambda st2, r: cont(st2))
        if ty.startswith('unique_arc::UniqueArc<'):
            return s.drop_value(st, 'arc::Arc<T>', Ptr(ptr.root, ptr.path + (0,)), depth, cont)
        if re.match(r'^(std::boxed::)?Box<arc::ArcInner<', ty):
            b = st.load(ptr)
            data = st.load(Ptr(b.root, b.path + (1,)))
            if not (isinstance(data, Opaque) and data.what == 'moved-out'): st.ev(kind='DESTROY', loc=('data', b.root[1]))
            st.ev(kind='FREE', loc=('blk', b.root[1]))
            return cont(st)
        if ty.startswith('std::result::Result<') or ty.startswith('std::option::Option<'):
            v = st.load(ptr)
            inner = split_top(ty[ty.index('<')+1:-1])
            idx = {'Ok': 0, 'Err': 1, 'Some': 0}.get(v.variant)
            if idx is None or not v.fields: return cont(st)
            return s.drop_value(st, inner[idx], Ptr(ptr.root, ptr.path + (0,)), depth, cont)
        if re.match(r'^[A-Z]$', ty):
            st.ev(kind='DESTROY-local', loc=('value', ty)); return cont(st)
        raise Unsupported(f"drop glue for {ty}")

    # ---- calls
    def call_extern(s, st, name, args, cont, f):
        n = name
        if re.search(r'Atomic::(fetch_add|fetch_sub|load|store|swap)$', n):
            op = n.split('::')[-1]; ptr = args[0]
            if not (isinstance(ptr, Ptr) and ptr.root[0] == 'H' and ptr.path == (0,)): raise Unsupported(f"atomic on {ptr}")
            order = args[-1][1]; loc = ('cnt', ptr.root[1])
            if op == 'load':
                r = st.fresh('r'); st.ev(kind='R', loc=loc, ord=order, rval=r); return cont(st, r)
            if op in ('fetch_add', 'fetch_sub'):
                r = st.fresh('r'); w = r + args[1] if op == 'fetch_add' else r - args[1]
                st.ev(kind='RMW', loc=loc, ord=order, rval=r, wval=w, op=op); return cont(st, r)
            if op == 'store':
                st.ev(kind='W', loc=loc, ord=order, wval=args[1]); return cont(st, Opaque('unit'))
        mcas = re.search(r'Atomic::(compare_exchange|compare_exchange_weak)$', n)
        if mcas:
            # one compare-exchange = two mutually exclusive events chosen by a per-instance variable k:
            # success (RMW, success ordering, value read == expected) or failure (plain read, failure
            # ordering; value read != expected, or -- weak form only -- any value: spurious failure).
            ptr, exp, new, so, fo = args
            if not (isinstance(ptr, Ptr) and ptr.root[0] == 'H' and ptr.path == (0,)): raise Unsupported(f"atomic on {ptr}")
            loc = ('cnt', ptr.root[1]); weak = mcas.group(1).endswith('weak')
            k = st.fresh('k')
            for succ in (True, False):
                st2 = st.clone(); st2.nsym = st.nsym
                r = st2.fresh('r')
                if succ:
                    st2.ev(kind='RMW', loc=loc, ord=so[1], rval=r, wval=new, op='cas', fresh=[k]); st2.pc += [k == 1, r == exp]
                    rv = Enum('Result', 'Ok', [r])
                else:
                    st2.ev(kind='R', loc=loc, ord=fo[1], rval=r, op='cas-fail', fresh=[k]); st2.pc += [k == 0] + ([] if weak else [r != exp])
                    rv = Enum('Result', 'Err', [r])
                try: cont(st2, rv)
                except PathEnd as e: s.results.append((st2, ('end', e.why)))
            return
        if n in ('Result::is_ok', 'Result::is_err'):
            r0 = args[0] if isinstance(args[0], Enum) else st.load(args[0])
            return cont(st, (r0.variant == 'Ok') == n.endswith('is_ok'))
        if n == 'compiler_fence' or n.endswith('::compiler_fence'):
            return cont(st, Opaque('unit'))     # orders nothing between threads: no event
        if n == 'fence' or n.endswith('::fence'):
            st.ev(kind='F', ord=args[0][1]); return cont(st, Opaque('unit'))
        if n.endswith('Atomic::new'): return cont(st, Struct('Atomic', [args[0]]))
        if re.search(r'Atomic::(as_ptr|get_mut)$', n):
            p0 = args[0]
            if isinstance(p0, Ptr): return cont(st, Ptr(p0.root, p0.path + (0,)))
        if re.search(r'(NonNull::(new_unchecked|as_ptr|cast)|ManuallyDrop::(new|into_inner)|Box::from_raw)$', n): return cont(st, args[0])
        if re.search(r'<ManuallyDrop as (Deref|DerefMut)>::(deref|deref_mut)$', n): return cont(st, args[0])
        if n.endswith('Box::new'):
            st.nheap += 1; root = ('H', f"fresh{st.nheap}"); st.mem[root] = args[0]
            cnt = args[0].fields[0].fields[0]
            st.ev(kind='ALLOC', loc=('blk', root[1]), init=cnt); return cont(st, Ptr(root))
        if n.endswith('Box::into_raw'): return cont(st, args[0])
        if n == '<Box as Drop>::drop':
            b = st.load(args[0]); st.ev(kind='FREE', loc=('blk', b.root[1])); return cont(st, Opaque('unit'))
        if n.endswith('process::abort') or n == 'abort': st.ev(kind='ABORT'); raise PathEnd('abort')
        if n.endswith('mem::forget'): return cont(st, Opaque('unit'))
        if n.endswith('ManuallyDrop::drop'):
            ty = s.generic_arg(getattr(s, '_raw_callee', ''))
            return s.drop_value(st, ty, args[0], 0, lambda st2: cont(st2, Opaque('unit')))
        if n.endswith('drop_in_place'):
            p0 = args[0]
            if isinstance(p0, Ptr) and p0.root[0] == 'H' and p0.path in ((), (1,)):
                st.ev(kind='DESTROY', loc=('data', p0.root[1])); return cont(st, Opaque('unit'))
            ty = s.generic_arg(getattr(s, '_raw_callee', ''))
            return s.drop_value(st, ty, p0, 0, lambda st2: cont(st2, Opaque('unit')))
        if n.endswith('mem::drop'):
            ty = s.generic_arg(getattr(s, '_raw_callee', ''))
            st.nheap += 1; root = ('T', st.nheap); st.mem[root] = args[0]
            return s.drop_value(st, ty, Ptr(root), 0, lambda st2: cont(st2, Opaque('unit')))
        if re.search(r'(mut_ptr|const_ptr)::(cast|cast_mut|cast_const)$', n): return cont(st, args[0])
        if n.endswith('Layout::new') or n.endswith('Layout::for_value'): return cont(st, Opaque('layout'))
        if n.endswith('alloc::dealloc'):
            p0 = args[0]
            if isinstance(p0, Ptr) and p0.root[0] == 'H': st.ev(kind='FREE', loc=('blk', p0.root[1]))
            return cont(st, Opaque('unit'))
        if n.endswith('mem::replace'):
            old = copy.deepcopy(st.load(args[0])); st.store(args[0], args[1]); return cont(st, old)
        if n.endswith('mem::swap'):
            a, b = copy.deepcopy(st.load(args[0])), copy.deepcopy(st.load(args[1])); st.store(args[0], b); st.store(args[1], a); return cont(st, Opaque('unit'))
        if n.endswith('ptr::read') or re.search(r'(mut_ptr|const_ptr)::read$', n):
            v = copy.deepcopy(st.load(args[0]))
            p0 = args[0]
            if isinstance(v, Opaque) and v.what == 'payload' and isinstance(p0, Ptr) and p0.root[0] == 'H':
                st.ev(kind='Rna', loc=('data', p0.root[1]), note='move-out'); st.store(p0, MOVED)
            return cont(st, v)
        if n.endswith('ptr::write') or re.search(r'mut_ptr::write$', n):
            st.store(args[0], args[1]); return cont(st, Opaque('unit'))
        if n.endswith('needs_drop'):
            # an unknown property of the payload type, the same for every operation and thread of a scenario: one
            # template-level variable that is NOT renamed per instance; both worlds are explored
            tp = BitVec('TP_needs_drop', 64)
            known = st.mem.get(('TYPEPROP', 'needs_drop'))
            for val in ((True, False) if known is None else (known,)):
                st2 = st.clone() if known is None else st
                st2.mem[('TYPEPROP', 'needs_drop')] = val
                if known is None: st2.pc.append(tp == (1 if val else 0))
                try: cont(st2, val)
                except PathEnd as e: s.results.append((st2, ('end', e.why)))
            return
        if re.search(r'mem::(size_of|align_of|size_of_val|align_of_val)$', n): return cont(st, st.fresh('layout'))  # unknown property of the payload type
        if n == 'Result::map':
            r, fn = args
            if r.variant == 'Ok':
                kind, tgt = s.resolve(fn.path, 1)
                return s.call_fn(st, tgt, [r.fields[0]], 0, lambda st2, v: cont(st2, Enum(r.ty, 'Ok', [v])))
            return cont(st, r)
        if n == 'Result::ok':
            r = args[0]; return cont(st, Enum('Option', 'Some', r.fields) if r.variant == 'Ok' else Enum('Option', 'None', []))
        if n == 'Result::unwrap_or_else':
            r, clo = args
            if r.variant == 'Ok': return cont(st, r.fields[0])
            fn = s.find(None, closure=clo.what.split('closure:')[1])[0]
            return s.call_fn(st, fn, [clo, r.fields[0]], 0, cont)
        raise Unsupported(f"extern call {name} in {f.name}")

    def call_generic(s, st, trait, meth, args, cont):
        if (trait, meth) == ('Clone', 'clone'):
            p = args[0]
            if isinstance(p, Ptr) and p.root[0] == 'H': st.ev(kind='Rna', loc=('data', p.root[1]), note='T::clone (user code)')
            return cont(st, Opaque('payload-clone'))
        raise Unsupported(f"generic call <{trait}>::{meth}")

    def call_fn(s, st, fn, args, depth, cont):
        if depth > s.maxdepth: raise Unsupported('inline depth')
        s.visited.add(fn.name)
        st.nframe += 1; fr = st.nframe
        for (n, _), a in zip(fn.params, args): st.mem[('L', fr, n)] = a
        for n in fn.locals:
            st.mem.setdefault(('L', fr, n), UNINIT)
        return s.run_block(st, fn, fr, 'bb0', depth, cont)

    def run_block(s, st, fn, fr, bb, depth, cont):
        stmts = fn.blocks[bb]
        for ln in stmts[:-1]:
            if ln.startswith(('StorageLive', 'StorageDead', 'nop', 'FakeRead', 'PlaceMention', 'Retag', 'AscribeUserType', 'Coverage')): continue
            lhs, rhs = ln.split(' = ', 1)
            pl, _ = parse_place(lhs); v = s.eval_rvalue(st, fr, fn, rhs)
            st.store(s.eval_place(st, fr, pl), v)
        t = stmts[-1]
        if t == 'return': return cont(st, st.load(Ptr(('L', fr, 0))))
        if t == 'resume': raise PathEnd('unwind')
        if t == 'unreachable': raise PathEnd('unreachable')
        m = re.match(r'^goto -> (bb\d+)$', t)
        if m: return s.run_block(st, fn, fr, m.group(1), depth, cont)
        m = re.match(r'^switchInt\((.*)\) -> \[(.*)\]$', t)
        if m:
            v = s.eval_operand(st, fr, m.group(1)); arms = [a.split(': ') for a in split_top(m.group(2))]
            if isinstance(v, tuple) and v[0] == 'discr':
                idx = {'None': 0, 'Some': 1, 'Ok': 0, 'Err': 1}.get(v[1])
                if idx is None: raise Unsupported(f'switch on discriminant of {v[1]}')
                d = dict(arms)
                return s.run_block(st, fn, fr, d.get(str(idx), d.get('otherwise')), depth, cont)
            if isinstance(v, bool) or (is_bool(v) and (is_true(simplify(v)) or is_false(simplify(v)))):
                b = v if isinstance(v, bool) else is_true(simplify(v))
                tgt = [bbx for val, bbx in arms if (val == 'otherwise') or (val == '0') == (not b)]
                # arms are [0: bbX, otherwise: bbY]
                d = dict(arms); return s.run_block(st, fn, fr, d['otherwise'] if b else d['0'], depth, cont)
            if is_bool(v):
                d = dict(arms); out = []
                for cond, tgt in ((v, d['otherwise']), (Not(v), d['0'])):
                    st2 = st.clone(); st2.pc.append(cond)
                    sol = Solver(); sol.add(*st2.pc)
                    if sol.check() != sat: continue
                    try: s.run_block(st2, fn, fr, tgt, depth, cont)
                    except PathEnd as e: s.results.append((st2, ('end', e.why)))
                return
            raise Unsupported(f"switchInt on {v!r}")
        m = re.match(r'^drop\((.*)\) -> \[return: (bb\d+), .*\]$', t)
        if m:
            pl, _ = parse_place(m.group(1)); ptr = s.eval_place(st, fr, pl)
            ty = s.place_type(fn, pl)
            return s.drop_value(st, ty, ptr, depth + 1, lambda st2: s.run_block(st2, fn, fr, m.group(2), depth, cont))
        m = re.match(r'^assert\((.*?), .*\) -> \[success: (bb\d+), .*\]$', t)
        if m: raise Unsupported(f'assert terminator in {fn.name} (build the dump with -C overflow-checks=off -C debug-assertions=off)')
        # call
        m = re.match(r'^(.*?) = (.*)\) -> (\[return: (bb\d+), .*\]|unwind .*)$', t)
        if m:
            lhs, callpart, _, ret = m.groups()
            callpart += ')'
            depthp = 0; j = len(callpart) - 1
            while True:
                if callpart[j] == ')': depthp += 1
                elif callpart[j] == '(':
                    depthp -= 1
                    if depthp == 0: break
                j -= 1
            callee, argstr = callpart[:j], callpart[j+1:-1]
            args = [s.eval_operand(st, fr, a) for a in split_top(argstr)]
            dst, _ = parse_place(lhs)
            def after(st2, rv):
                if ret is None: raise PathEnd('diverged')
                st2.store(s.eval_place(st2, fr, dst), rv)
                return s.run_block(st2, fn, fr, ret, depth, cont)
            kind, *tgt = s.resolve(callee, len(args))
            if kind == 'local': return s.call_fn(st, tgt[0], args, depth + 1, after)
            if kind == 'generic': return s.call_generic(st, tgt[0], tgt[1], args, after)
            s._raw_callee = callee
            return s.call_extern(st, tgt[0], args, after, fn)
        raise Unsupported(f"terminator {t!r} in {fn.name}")

    def place_type(s, fn, pl):
        if pl[0] == 'local': return fn.locals[pl[1]]
        if pl[0] == 'field': return pl[3]
        if pl[0] == 'deref':
            t = s.place_type(fn, pl[1]); return re.sub(r"^(&'?\w* ?mut |&mut |&|\*mut |\*const )", '', t)
        return s.place_type(fn, pl[1])

    def template(s, fn, args_builder):
        s.results = []
        st = State()
        st.mem[('H', 'a0')] = Struct('ArcInner', [Struct('Atomic', [Opaque('count')]), Opaque('payload')])
        args = args_builder(st)
        def done(st2, rv): s.results.append((st2, ('ret', rv)))
        try: s.call_fn(st, fn, args, 0, done)
        except PathEnd as e: s.results.append((st, ('end', e.why)))
        return s.results

def show(name, results):
    print(f"== {name}: {len(results)} path(s)")
    for st, res in results:
        pc = simplify(And(*st.pc)) if st.pc else True
        print(f"   if {pc}:")
        for e in st.events:
            d = {k: v for k, v in e.items() if k not in ('kind',)}
            print(f"       {e['kind']:8s} {d}")
        print(f"     -> {res}")

def extract(mir_text, maxdepth=10):
    """Templates of every operation Engine W composes scenarios from."""
    fns, consts = parse_mir(mir_text)
    I = Interp(fns, consts, maxdepth)
    def f(method, p0):
        c = [x for x in fns if x.name.split('::')[-1] == method and x.params and x.params[0][1] == p0]
        if len(c) != 1: raise Unsupported(f'function {method}({p0}) not found exactly once in the MIR dump ({len(c)} candidates)')
        return c[0]
    def by_ref(st):
        st.mem[('L', 0, 'h')] = Struct('arc::Arc<T>', [Ptr(('H', 'a0')), Opaque('zst')]); return [Ptr(('L', 0, 'h'))]
    def by_val(st): return [Struct('arc::Arc<T>', [Ptr(('H', 'a0')), Opaque('zst')])]
    ops = [('clone', '&arc::Arc<T>', by_ref), ('drop', '&mut arc::Arc<T>', by_ref), ('strong_count', '&arc::Arc<T>', by_ref),
           ('count', '&arc::Arc<T>', by_ref), ('is_unique', '&arc::Arc<T>', by_ref), ('get_mut', '&mut arc::Arc<T>', by_ref),
           ('try_unique', 'arc::Arc<T>', by_val), ('try_unwrap', 'arc::Arc<T>', by_val), ('make_mut', '&mut arc::Arc<T>', by_ref),
           ('unwrap_or_clone', 'arc::Arc<T>', by_val)]
    out = {}
    for name, p0, builder in ops:
        fn = f(name, p0)
        res = I.template(fn, builder)
        paths = []
        for st, r in res:
            paths.append({'pc': list(st.pc), 'events': list(st.events), 'result': r, 'fn': fn.name})
        if not paths: raise Unsupported(f'no feasible path through {name}')
        out[name] = paths
    # every place in the crate that touches the counter or a fence must be inside a function we encode or
    # one that funnels into them (reported so that an un-encoded access cannot be silently ignored)
    sites = []
    for fn in fns:
        for bb, stmts in fn.blocks.items():
            for ln in stmts:
                m = re.search(r'Atomic::<usize>::(\w+)|= (?:\w+::)*(fence|compiler_fence)\(', ln)
                if m:
                    sites.append((fn.name, m.group(1) or m.group(2)))
    extract.visited = set(I.visited)
    return out, sites

def describe(paths):
    """human/JSON-friendly rendering of a template"""
    out = []
    for p in paths:
        evs = []
        for e in p['events']:
            k = e['kind']
            if k in ('R', 'RMW', 'W'): evs.append(f"{k}({e['loc'][0]},{e.get('ord')}" + (f",{e['op']}" if 'op' in e else '') + ')')
            elif k == 'F': evs.append(f"F({e['ord']})")
            else: evs.append(k + (f"({e['loc'][0]}:{e['loc'][1]})" if 'loc' in e else ''))
        pc = str(simplify(And(*p['pc']))) if p['pc'] else 'true'
        r = p['result']
        out.append({'if': pc, 'events': evs, 'result': (r[0] + ':' + (getattr(r[1], 'variant', None) or type(r[1]).__name__)) if isinstance(r, tuple) else str(r)})
    return out

if __name__ == '__main__':
    fns, consts = parse_mir(open(sys.argv[1]).read())
    I = Interp(fns, consts)
    def f(method, p0):
        c = [x for x in fns if x.name.split('::')[-1] == method and x.params and x.params[0][1] == p0]
        assert len(c) == 1, (method, p0, c); return c[0]
    def by_ref(st):
        st.mem[('L', 0, 'h')] = Struct('arc::Arc<T>', [Ptr(('H', 'a0')), Opaque('zst')]); return [Ptr(('L', 0, 'h'))]
    def by_val(st): return [Struct('arc::Arc<T>', [Ptr(('H', 'a0')), Opaque('zst')])]
    for name, p0, builder in [
        ('clone', '&arc::Arc<T>', by_ref), ('drop', '&mut arc::Arc<T>', by_ref), ('strong_count', '&arc::Arc<T>', by_ref),
        ('is_unique', '&arc::Arc<T>', by_ref), ('get_mut', '&mut arc::Arc<T>', by_ref), ('try_unwrap', 'arc::Arc<T>', by_val),
        ('make_mut', '&mut arc::Arc<T>', by_ref), ('unwrap_or_clone', 'arc::Arc<T>', by_val)]:
        try: show(name, I.template(f(name, p0), builder))
        except Unsupported as e: print(f"== {name}: UNSUPPORTED {e}")
