"""Engine U: the MIR interpreter of mirsym.py run SEQUENTIALLY and following unwind edges, to decide what
Kani cannot: the state left behind when user code called by the library panics (C07, part of C10).

For each API that runs user code the real MIR of /repo (including clean-up blocks, drop flags and the
`Drop` impl of `with_arc_mut`'s guard) is executed symbolically from an arbitrary count `c`:
  * the callback is a nondeterministic summary: {no effect | keeps a clone | replaces the Arc} x
    {returns | panics}; `Clone::clone` of the payload {returns | panics};
  * every path ends at `return` or at `resume` (the panic leaves the function);
  * at the end a CENSUS is taken: for every allocation, the count word must equal the number of owning
    handles that still exist (other owners c-1, the caller's handle wherever it now points, clones the
    callback kept), a freed allocation must not be referenced, and no allocation may be left with a
    positive count and no owner (leak of a count).
z3 decides, per path, whether some count value c violates the census (SAT = violation with the value).
"""
import re, copy, itertools
from z3 import BitVec, BitVecVal, BoolVal, And, Or, Not, Solver, sat, unsat, simplify, is_true, is_false, is_bool, ULE, UGE, ULT
import mirsym
from mirsym import (Ptr, Struct, Enum, Opaque, FnItem, MOVED, UNINIT, PathEnd, Unsupported, split_top, parse_place, BINOPS, ORD)

MAXC = (1 << 63) - 3


def leaf_type(ty):
    """last path segment of a type, generics stripped: `a::B<X>::f::Guard<'_, T>` -> `Guard`"""
    out, depth = [], 0
    for i, ch in enumerate(ty.strip()):
        if ch == '<':
            depth += 1
        elif ch == '>' and (i == 0 or ty[i - 1] != '-'):
            depth -= 1
        elif depth == 0:
            out.append(ch)
    return ''.join(out).split('::')[-1].strip()


def unwrap_ptr(v):
    """pointer newtypes built as aggregates (NonNull { pointer }, Unique, ...) are transparent"""
    while isinstance(v, Struct) and len(v.fields) >= 1 and not isinstance(v, Ptr):
        if isinstance(v.fields[0], (Ptr, Struct)) and re.search(r'NonNull|Unique|ManuallyDrop', v.ty or ''):
            v = v.fields[0]
        else:
            break
    return v


def mptr(root, path=(), meta=None):
    """abstract pointer that may carry slice-length metadata (fat pointer)"""
    p = Ptr(root, path)
    p.meta = meta
    return p


def meta_of(p):
    return getattr(p, 'meta', None)


class UState(mirsym.State):
    def __init__(s):
        super().__init__()
        s.cnt = {}        # allocation -> z3 expr (current count word)
        s.ext = {}        # allocation -> owners held by user code outside (clones kept by a callback)
        s.freed = set()
        s.free_meta = {}  # allocation -> slice length the block was released with (fat pointers only)
        s.true_len = {}   # allocation -> real slice length
        s.trace = []      # human-readable steps

    def clone(s):
        c = UState()
        c.mem = copy.deepcopy(s.mem)
        c.events = list(s.events)
        c.pc = list(s.pc)
        c.nsym, c.nheap, c.nframe = s.nsym, s.nheap, s.nframe
        c.cnt = dict(s.cnt)
        c.ext = dict(s.ext)
        c.freed = set(s.freed)
        c.free_meta = dict(s.free_meta)
        c.true_len = dict(s.true_len)
        c.trace = list(s.trace)
        return c


class UInterp(mirsym.Interp):
    """Sequential, unwinding-aware variant of the interpreter."""

    def __init__(s, fns, consts, maxdepth=12):
        super().__init__(fns, consts, maxdepth)
        s.paths = []
        s.iter_len = 0     # honest user iterator: yields exactly this many items (lying iterators are Kani's subject)

    # ------------------------------------------------------------------ helpers
    def plain_count_read(s, st, p):
        """a non-atomic read of the count word: sequentially just its current value"""
        return st.cnt[p.root[1]]

    def alloc_of(s, ptr):
        ptr = unwrap_ptr(ptr)
        if isinstance(ptr, Ptr) and ptr.root[0] == 'H':
            return ptr.root[1]
        raise Unsupported(f'not a heap pointer: {ptr!r}')

    def feasible(s, st):
        sol = Solver()
        sol.add(*st.pc)
        return sol.check() == sat

    # ------------------------------------------------------------------ externs (sequential atomics, summaries)
    def call_extern(s, st, name, args, cont, f, unw=None):
        n = name
        m = re.search(r'Atomic::(fetch_add|fetch_sub|load|store)$', n)
        if m:
            op = m.group(1)
            ptr = args[0]
            if not (isinstance(ptr, Ptr) and ptr.root[0] == 'H' and ptr.path == (0,)):
                raise Unsupported(f'atomic on {ptr}')
            x = ptr.root[1]
            if x in st.freed:
                st.trace.append(f'ATOMIC ACCESS TO FREED ALLOCATION {x}')
                st.pc.append(BoolVal(True))
                st.mem[('FLAG', 'uaf')] = True
            cur = st.cnt[x]
            if op == 'load':
                return cont(st, cur)
            if op == 'fetch_add':
                st.cnt[x] = cur + args[1]
                st.trace.append(f'count({x}) += 1')
                return cont(st, cur)
            if op == 'fetch_sub':
                st.cnt[x] = cur - args[1]
                st.trace.append(f'count({x}) -= 1')
                return cont(st, cur)
            if op == 'store':
                st.cnt[x] = args[1]
                return cont(st, Opaque('unit'))
        mcas = re.search(r'Atomic::(compare_exchange|compare_exchange_weak)$', n)
        if mcas:
            ptr, exp, new = args[0], args[1], args[2]
            if not (isinstance(ptr, Ptr) and ptr.root[0] == 'H' and ptr.path == (0,)):
                raise Unsupported(f'atomic on {ptr}')
            x = ptr.root[1]
            if x in st.freed:
                st.trace.append(f'ATOMIC ACCESS TO FREED ALLOCATION {x}')
                st.mem[('FLAG', 'uaf')] = True
            cur = st.cnt[x]
            weak = mcas.group(1).endswith('weak')
            # sequential semantics: succeeds iff the word equals `exp` (the weak form may also fail spuriously)
            for succ in (True, False):
                st2 = st.clone()
                if succ:
                    st2.pc.append(cur == exp)
                    st2.cnt[x] = new if not isinstance(new, int) else BitVecVal(new, 64)
                    st2.trace.append(f'compare_exchange on count({x}) succeeds')
                    rv = Enum('Result', 'Ok', [cur])
                else:
                    if not weak:
                        st2.pc.append(cur != exp)
                    st2.trace.append(f'compare_exchange on count({x}) fails' + (' (possibly spuriously)' if weak else ''))
                    rv = Enum('Result', 'Err', [cur])
                if not s.feasible(st2):
                    continue
                try:
                    cont(st2, rv)
                except PathEnd as e:
                    s.paths.append((st2, ('end', e.why)))
            return
        if n in ('Result::is_ok', 'Result::is_err'):
            r = args[0] if isinstance(args[0], Enum) else st.load(args[0])
            return cont(st, (r.variant == 'Ok') == n.endswith('is_ok'))
        if n == 'compiler_fence' or n.endswith('::compiler_fence') or n == 'fence' or n.endswith('::fence'):
            return cont(st, Opaque('unit'))
        if n.endswith('Atomic::new'):
            return cont(st, Struct('Atomic', [args[0]]))
        if re.search(r'Atomic::(as_ptr|get_mut)$', n) and isinstance(args[0], Ptr):
            return cont(st, Ptr(args[0].root, args[0].path + (0,)))
        if n.endswith('Box::new'):
            st.nheap += 1
            root = ('H', f'fresh{st.nheap}')
            st.mem[root] = args[0]
            init = args[0].fields[0].fields[0]
            st.cnt[root[1]] = init if not isinstance(init, int) else BitVecVal(init, 64)
            st.trace.append(f'alloc {root[1]} (count 1)')
            return cont(st, Ptr(root))
        # pointer plumbing that is the identity on our abstract pointers
        if re.search(r'(NonNull::(new_unchecked|as_ptr|cast)|ManuallyDrop::(new|into_inner)|Box::(from_raw|into_raw))$', n):
            return cont(st, args[0])
        if re.search(r'<ManuallyDrop as (Deref|DerefMut)>::(deref|deref_mut)$', n):
            return cont(st, args[0])
        if n.endswith('ptr::read') or re.search(r'(mut_ptr|const_ptr)::read$', n):
            return cont(st, copy.deepcopy(st.load(args[0])))
        if n.endswith('ptr::write') or re.search(r'mut_ptr::write$', n):
            st.store(args[0], args[1])
            return cont(st, Opaque('unit'))
        if n.endswith('mem::forget'):
            return cont(st, Opaque('unit'))
        mpe = re.search(r'<(NonNull|ptr::NonNull) as PartialEq>::(eq|ne)$', n)
        if mpe and len(args) >= 2:
            # pointer identity of two handles' allocation pointers (e.g. "did the callback replace the Arc?")
            vals = []
            for x in args[:2]:
                v = st.load(x) if isinstance(x, Ptr) and x.root[0] != 'H' else x
                vals.append(unwrap_ptr(v))
            a, b = vals
            if isinstance(a, Ptr) and isinstance(b, Ptr):
                same = (a.root, tuple(a.path)) == (b.root, tuple(b.path))
                return cont(st, same if mpe.group(2) == 'eq' else not same)
        if n.endswith('needs_drop'):
            known = st.mem.get(('TYPEPROP', 'needs_drop'))
            for val in ((True, False) if known is None else (known,)):
                st2 = st.clone() if known is None else st
                st2.mem[('TYPEPROP', 'needs_drop')] = val
                if known is None:
                    st2.trace.append(f'payload type {"needs" if val else "does not need"} drop')
                try:
                    cont(st2, val)
                except PathEnd as e:
                    s.paths.append((st2, ('end', e.why)))
            return
        if n.endswith('ManuallyDrop::drop'):
            # drops the wrapped value in place: its type is the generic argument of the call
            ty = s.generic_arg(getattr(s, '_raw_callee', ''))
            return s.drop_value(st, ty, args[0], 0, lambda st2: cont(st2, Opaque('unit')), unw)
        if n.endswith('drop_in_place'):
            p0 = args[0]
            if isinstance(p0, Ptr) and p0.root[0] == 'H' and p0.path in ((), (1,)):
                x = p0.root[1]
                if has_uninit(st.mem.get(('H', x))):
                    st.mem[('FLAG', 'uninit_drop')] = True
                    st.trace.append(f'DESTROYS UNWRITTEN SLOTS of {x}')
                st.trace.append(f'destroy payload of {x} in place')
                return cont(st, Opaque('unit'))
            ty = s.generic_arg(getattr(s, '_raw_callee', ''))
            return s.drop_value(st, ty, p0, 0, lambda st2: cont(st2, Opaque('unit')), unw)
        if n.endswith('mem::drop'):
            ty = s.generic_arg(getattr(s, '_raw_callee', ''))
            st.nheap += 1
            root = ('T', st.nheap)
            st.mem[root] = args[0]
            return s.drop_value(st, ty, Ptr(root), 0, lambda st2: cont(st2, Opaque('unit')), unw)
        if n.endswith('Layout::new') or n.endswith('Layout::for_value'):
            return cont(st, Opaque('layout'))
        if n.endswith('alloc::dealloc'):
            p0 = args[0]
            if isinstance(p0, Ptr) and p0.root[0] == 'H':
                st.freed.add(p0.root[1])
                if meta_of(p0) is not None:
                    st.free_meta[p0.root[1]] = meta_of(p0)
                st.trace.append(f'free {p0.root[1]}')
            return cont(st, Opaque('unit'))
        if re.search(r'(mut_ptr|const_ptr)::(cast_mut|cast_const)$', n):
            return cont(st, args[0])
        if n.endswith('ManuallyDrop::take'):
            return cont(st, copy.deepcopy(st.load(args[0])))
        if n.endswith('mem::replace'):
            old = copy.deepcopy(st.load(args[0]))
            st.store(args[0], args[1])
            return cont(st, old)
        if n.endswith('mem::swap'):
            a, b = copy.deepcopy(st.load(args[0])), copy.deepcopy(st.load(args[1]))
            st.store(args[0], b)
            st.store(args[1], a)
            return cont(st, Opaque('unit'))
        if n.endswith('process::abort') or n == 'abort':
            raise PathEnd('abort')
        if n.endswith('allocate_for_header_and_slice'):
            # summary: a fresh block with count 1 whose header and `len` slice slots are all unwritten
            ln = args[0]
            ln = simplify(ln).as_long() if not isinstance(ln, int) else ln
            st.nheap += 1
            root = ('H', f'built{st.nheap}')
            st.mem[root] = Struct('ArcInner', [Struct('Atomic', [BitVecVal(1, 64)]),
                                               Struct('HeaderSlice', [UNINIT, Struct('slice', [UNINIT] * ln)])])
            st.cnt[root[1]] = BitVecVal(1, 64)
            st.true_len[root[1]] = BitVecVal(ln, 64)
            st.trace.append(f'alloc {root[1]} ({ln} unwritten slots)')
            return cont(st, mptr(root, (), BitVecVal(ln, 64)))
        if n.endswith('<impl [T]>::as_mut_ptr') or n.endswith('slice::as_mut_ptr') or re.search(r'slice::<impl \[T\]>::as_mut_ptr$', n):
            return cont(st, Ptr(args[0].root, args[0].path + (0,)))
        if re.search(r'mut_ptr::(offset|add)$', n):
            k = args[1]
            k = simplify(k).as_long() if not isinstance(k, int) else k
            p0 = args[0]
            try:
                tgt = st.load(p0)
            except Exception:
                tgt = None
            if isinstance(tgt, Struct) and tgt.ty == 'slice':     # pointer to the slice as a whole: index into it
                return cont(st, Ptr(p0.root, p0.path + (k,)))
            return cont(st, Ptr(p0.root, p0.path[:-1] + (p0.path[-1] + k,)))
        if re.search(r'Range as IntoIterator>::into_iter$', n):
            return cont(st, args[0])
        if re.search(r'Range as Iterator>::next$', n):
            r = st.load(args[0])
            a, b = simplify(r.fields[0]).as_long(), simplify(r.fields[1]).as_long()
            if a < b:
                st.store(Ptr(args[0].root, args[0].path + (0,)), BitVecVal(a + 1, 64))
                return cont(st, Enum('Option', 'Some', [BitVecVal(a, 64)]))
            return cont(st, Enum('Option', 'None', []))
        if n.endswith('Option::expect') or n.endswith('Option::unwrap'):
            o = args[0]
            if o.variant == 'Some':
                return cont(st, o.fields[0])
            st.trace.append('library panics (expect on None)')
            if unw is None:
                raise PathEnd('unwind')
            return unw(st)
        if n.endswith('Option::is_none'):
            o = st.load(args[0])
            return cont(st, o.variant == 'None')
        if n.endswith('Option::is_some'):
            o = st.load(args[0])
            return cont(st, o.variant == 'Some')
        if n == 'thin_to_thick':
            # fat pointer re-synthesised from the length RECORDED in the allocation's header
            t = st.load(args[0])
            thin = unwrap_ptr(t.fields[0])
            try:
                rec = st.load(Ptr(thin.root, (1, 0, 1)))
            except Exception:
                rec = None
            if isinstance(rec, (Opaque, Struct, Enum, Ptr)):
                rec = None
            return cont(st, mptr(thin.root, thin.path, rec))
        if re.search(r'mut_ptr::cast$|const_ptr::cast$', n):
            # cast of a raw pointer to a sized pointee: the slice-length metadata is dropped
            return cont(st, mptr(args[0].root, args[0].path, None))
        if n.endswith('Arguments::from_str') or n.endswith('Arguments::new_const'):
            return cont(st, Opaque('fmt-args'))
        if 'panicking::' in n or n in ('panic', 'panic_fmt', 'panic_display', 'panic_explicit') or n.endswith('begin_panic'):
            st.trace.append('library panics (' + n.split('::')[-1] + ')')
            if unw is None:
                raise PathEnd('unwind')
            return unw(st)
        # summaries of the raw-pointer conversions (their pointer arithmetic is C11's subject)
        if n in ('arc::Arc::from_raw', 'Arc::from_raw'):
            p = args[0]
            return cont(st, Struct('arc::Arc<T>', [Ptr(p.root), Opaque('zst')]))
        if n in ('arc::Arc::into_raw', 'Arc::into_raw', 'arc::Arc::as_ptr'):
            a = args[0] if isinstance(args[0], Struct) else st.load(args[0])
            return cont(st, Ptr(a.fields[0].root, (1,)))
        if n == 'Result::map':
            r, fn = args
            if r.variant == 'Ok':
                kind, tgt = s.resolve(fn.path, 1)
                return s.call_fn(st, tgt, [r.fields[0]], 0, lambda st2, v: cont(st2, Enum(r.ty, 'Ok', [v])), unw)
            return cont(st, r)
        if n == 'Result::ok':
            r = args[0]
            return cont(st, Enum('Option', 'Some', r.fields) if r.variant == 'Ok' else Enum('Option', 'None', []))
        if n == 'Result::unwrap_or_else':
            r, clo = args
            if r.variant == 'Ok':
                return cont(st, r.fields[0])
            fn = s.find(None, closure=clo.what.split('closure:')[1])[0]
            return s.call_fn(st, fn, [clo, r.fields[0]], 0, cont, unw)
        if n == '<Box as Drop>::drop':
            b = st.load(args[0])
            st.freed.add(b.root[1])
            st.trace.append(f'free {b.root[1]}')
            return cont(st, Opaque('unit'))
        if getattr(s, 'strict_unknown', False):
            # a call we have no model for, on a path where only termination is acceptable: it may return or unwind
            st.trace.append(f'calls {name} (may panic)')
            st2 = st.clone()
            st2.trace.append(f'{name} panics')
            if unw is not None:
                try:
                    unw(st2)
                except PathEnd as e:
                    s.paths.append((st2, ('end', e.why)))
            else:
                s.paths.append((st2, ('end', 'unwind')))
            return cont(st, Opaque('unknown-result'))
        raise Unsupported(f'extern call {name} in {f.name}')

    # ------------------------------------------------------------------ user code
    def call_generic(s, st, trait, meth, args, cont, unw=None, callee=''):
        if (trait, meth) == ('Clone', 'clone'):
            # user Clone: returns a fresh value, or panics (nothing else can be assumed)
            st2 = st.clone()
            st2.trace.append('T::clone panics')
            if unw is not None:
                try:
                    unw(st2)
                except PathEnd as e:
                    s.paths.append((st2, ('end', e.why)))
            st.trace.append('T::clone returns')
            return cont(st, Opaque('payload-clone'))
        if (trait, meth) == ('ExactSizeIterator', 'len'):
            st.trace.append(f'iterator reports len {s.iter_len}')
            return cont(st, BitVecVal(s.iter_len, 64))
        if (trait, meth) == ('Iterator', 'next'):
            k = st.mem.get(('ITER', 'yielded'), 0)
            # user code may panic at any call
            st2 = st.clone()
            st2.trace.append(f'Iterator::next panics at call {k + 1}')
            if unw is not None:
                try:
                    unw(st2)
                except PathEnd as e:
                    s.paths.append((st2, ('end', e.why)))
            if k < s.iter_len:
                st.mem[('ITER', 'yielded')] = k + 1
                st.trace.append(f'next yields item {k}')
                return cont(st, Enum('Option', 'Some', [Opaque(f'item{k}')]))
            st.trace.append('next yields None')
            return cont(st, Enum('Option', 'None', []))
        if meth == 'call_once' and isinstance(args[0], Opaque) and args[0].what.startswith('closure:{closure@'):
            # a closure defined inside the crate (e.g. `|a| a.clone()` in OffsetArc::clone_arc): run its own MIR
            cl = s.find(None, closure=args[0].what.split('closure:', 1)[1])
            if len(cl) != 1:
                raise Unsupported(f'closure body not found for {args[0].what}')
            return s.call_fn(st, cl[0], [args[0]] + list(args[1].fields), 0, cont, unw)
        if meth == 'call_once':
            # callback given to with_arc / with_arc_mut / with_raw_offset_arc
            tup = args[1]
            target = tup.fields[0]          # &Arc or &mut Arc (a Ptr to the place holding the transient Arc)
            mutable = '&mut ' in callee
            effects = ['none', 'clone_kept'] + (['replace'] if mutable else [])
            for eff in effects:
                for outcome in ('return', 'panic'):
                    st2 = st.clone()
                    st2.trace.append(f'callback: {eff}, then {outcome}s')
                    try:
                        s.callback(st2, target, eff, outcome, cont, unw)
                    except PathEnd as e:
                        s.paths.append((st2, ('end', e.why)))
            return
        raise Unsupported(f'generic call <{trait}>::{meth}')

    def callback(s, st, target, eff, outcome, cont, unw):
        def finish(st3):
            if outcome == 'return':
                return cont(st3, Opaque('callback-result'))
            if unw is None:
                raise PathEnd('unwind')
            return unw(st3)
        arc = st.load(target)
        if not isinstance(arc, Struct):
            raise Unsupported(f'callback target is {arc!r}')
        x = s.alloc_of(arc.fields[0])
        if eff == 'none':
            return finish(st)
        want = '&offset_arc::OffsetArc<' if 'OffsetArc' in (arc.ty or '') else '&arc::Arc<'
        clone_fn = [f for f in s.fns if f.name.split('::')[-1] == 'clone' and f.params and f.params[0][1].startswith(want)][0]
        if eff == 'clone_kept':
            def after(st3, rv):
                st3.ext[x] = st3.ext.get(x, 0) + 1
                return finish(st3)
            return s.call_fn(st, clone_fn, [target], 0, after, None)
        if eff == 'replace':
            # `*arc = fresh_arc`: the old value is dropped in place, a sole-owned new allocation is stored
            st.nheap += 1
            root = ('H', f'repl{st.nheap}')
            st.mem[root] = Struct('ArcInner', [Struct('Atomic', [BitVecVal(1, 64)]), Opaque('payload')])
            st.cnt[root[1]] = BitVecVal(1, 64)
            def after(st3):
                st3.store(target, Struct(arc.ty, [Ptr(root), Opaque('zst')]))
                return finish(st3)
            return s.drop_value(st, 'arc::Arc<T>', target, 0, after, None)
        raise Unsupported(eff)

    # ------------------------------------------------------------------ drop glue
    def drop_value(s, st, ty, ptr, depth, cont, unw=None):
        ty = ty.strip()
        if ty.startswith('std::mem::ManuallyDrop<') or ty.startswith('&') or ty.startswith('*'):
            return cont(st)
        leaf = leaf_type(ty)
        if leaf == 'Arc':
            fn = [f for f in s.fns if f.name.split('::')[-1] == 'drop' and f.params[0][1].startswith('&mut arc::Arc<')][0]
            return s.call_fn(st, fn, [ptr], depth, lambda st2, r: cont(st2), unw)
        if leaf in ('UniqueArc', 'OffsetArc', 'ThinArc', 'ArcUnion'):
            # the type's own Drop impl if the dump has one, else a transparent wrapper around Arc
            cands = [f for f in s.fns if f.name.split('::')[-1] == 'drop' and f.params and leaf_type(re.sub(r"^&(mut )?", '', f.params[0][1])) == leaf]
            if cands:
                return s.call_fn(st, cands[0], [ptr], depth, lambda st2, r: cont(st2), unw)
            return s.drop_value(st, 'arc::Arc<T>', Ptr(ptr.root, ptr.path + (0,)), depth, cont, unw)
        if re.match(r'^(std::boxed::)?Box<arc::ArcInner<', ty):
            b = st.load(ptr)
            x = b.root[1]
            st.freed.add(x)
            if meta_of(b) is not None:
                st.free_meta[x] = meta_of(b)
            if has_uninit(st.mem.get(('H', x))):
                st.mem[('FLAG', 'uninit_drop')] = True
                st.trace.append(f'DESTROYS UNWRITTEN SLOTS of {x}')
            st.trace.append(f'destroy payload of {x}; free {x}' + (' with slice length ' + str(meta_of(b)) if meta_of(b) is not None else ''))
            return cont(st)
        if ty.startswith('std::result::Result<') or ty.startswith('std::option::Option<'):
            v = st.load(ptr)
            inner = split_top(ty[ty.index('<') + 1:-1])
            idx = {'Ok': 0, 'Err': 1, 'Some': 0}.get(v.variant)
            if idx is None or not v.fields:
                return cont(st)
            return s.drop_value(st, inner[idx], Ptr(ptr.root, ptr.path + (0,)), depth, cont, unw)
        if re.match(r'^[A-Z]$', ty) or ty.startswith('{closure'):
            v = st.load(ptr)
            if isinstance(v, Opaque) and v.what.startswith('item'):
                key = ('DROPPED', v.what)
                if st.mem.get(key):
                    st.mem[('FLAG', 'double_drop')] = True
                st.mem[key] = True
                st.trace.append(f'{v.what} destroyed (outside the allocation)')
            return cont(st)      # user value: its own destructor is outside the model
        leafty = leaf_type(ty)
        cands = [f for f in s.fns if f.name.split('::')[-1] == 'drop' and f.params and leaf_type(re.sub(r"^&(mut )?", '', f.params[0][1])) == leafty]
        if len(cands) == 1:
            return s.call_fn(st, cands[0], [ptr], depth, lambda st2, r: cont(st2), unw)
        raise Unsupported(f'drop glue for {ty}')

    # ------------------------------------------------------------------ control flow with unwind edges
    def call_fn(s, st, fn, args, depth, cont, unw=None):
        if depth > s.maxdepth:
            raise Unsupported('inline depth')
        st.nframe += 1
        fr = st.nframe
        for (n, _), a in zip(fn.params, args):
            st.mem[('L', fr, n)] = a
        for n in fn.locals:
            st.mem.setdefault(('L', fr, n), UNINIT)
        return s.run_block(st, fn, fr, 'bb0', depth, cont, unw)

    @staticmethod
    def unwind_target(suffix):
        m = re.search(r'unwind: (bb\d+)', suffix)
        if m:
            return ('bb', m.group(1))
        m = re.match(r'^(bb\d+)$', suffix.strip())
        if m:                      # diverging call (panic entry point): the only successor is the clean-up block
            return ('bb', m.group(1))
        if 'unwind continue' in suffix:
            return ('continue', None)
        return ('abort', None)

    def run_block(s, st, fn, fr, bb, depth, cont, unw=None):
        s._cur_fn = fn
        stmts = fn.blocks[bb]
        for ln in stmts[:-1]:
            if ln.startswith(('StorageLive', 'StorageDead', 'nop', 'FakeRead', 'PlaceMention', 'Retag', 'AscribeUserType', 'Coverage')):
                continue
            lhs, rhs = ln.split(' = ', 1)
            rhs = re.sub(r'^no_retag ', '', rhs)
            pl, _ = parse_place(lhs)
            v = s.eval_rvalue(st, fr, fn, rhs)
            st.store(s.eval_place(st, fr, pl), v)
        t = stmts[-1]

        def make_unw(suffix):
            kind, tgt = s.unwind_target(suffix)
            if kind == 'bb':
                return lambda st2: s.run_block(st2, fn, fr, tgt, depth, cont, unw)
            if kind == 'continue':
                if unw is None:
                    def top(st2):
                        raise PathEnd('unwind')
                    return top
                return unw
            def ab(st2):
                raise PathEnd('abort')
            return ab

        if t == 'return':
            return cont(st, st.load(Ptr(('L', fr, 0))))
        if t == 'resume':
            if unw is None:
                raise PathEnd('unwind')
            return unw(st)
        if t == 'unreachable':
            raise PathEnd('unreachable')
        m = re.match(r'^goto -> (bb\d+)$', t)
        if m:
            return s.run_block(st, fn, fr, m.group(1), depth, cont, unw)
        m = re.match(r'^switchInt\((.*)\) -> \[(.*)\]$', t)
        if m:
            v = s.eval_operand(st, fr, m.group(1))
            arms = dict(a.split(': ') for a in split_top(m.group(2)))
            if isinstance(v, tuple) and v[0] == 'discr':
                # two-variant enums only: variant index by name
                idx = {'None': 0, 'Some': 1, 'Ok': 0, 'Err': 1}[v[1]]
                tgt = arms.get(str(idx), arms.get('otherwise'))
                return s.run_block(st, fn, fr, tgt, depth, cont, unw)
            if isinstance(v, bool) or (is_bool(v) and (is_true(simplify(v)) or is_false(simplify(v)))):
                b = v if isinstance(v, bool) else is_true(simplify(v))
                return s.run_block(st, fn, fr, arms['otherwise'] if b else arms['0'], depth, cont, unw)
            if is_bool(v):
                for cond, tgt in ((v, arms['otherwise']), (Not(v), arms['0'])):
                    st2 = st.clone()
                    st2.pc.append(cond)
                    if not s.feasible(st2):
                        continue
                    try:
                        s.run_block(st2, fn, fr, tgt, depth, cont, unw)
                    except PathEnd as e:
                        s.paths.append((st2, ('end', e.why)))
                return
            raise Unsupported(f'switchInt on {v!r}')
        m = re.match(r'^drop\((.*)\) -> (.*)$', t)
        if m:
            pl, _ = parse_place(m.group(1))
            ptr = s.eval_place(st, fr, pl)
            ty = s.place_type(fn, pl)
            rm = re.search(r'return: (bb\d+)', m.group(2))
            return s.drop_value(st, ty, ptr, depth + 1,
                                lambda st2: s.run_block(st2, fn, fr, rm.group(1), depth, cont, unw), make_unw(m.group(2)))
        m = re.match(r'^assert\((.*?), .*\) -> \[success: (bb\d+), .*\]$', t)
        if m:
            raise Unsupported(f'assert terminator in {fn.name}')
        m = re.match(r'^(.*?) = (.*)\) -> (.*)$', t)
        if m:
            lhs, callpart, suffix = m.groups()
            callpart += ')'
            depthp = 0
            j = len(callpart) - 1
            while True:
                if callpart[j] == ')':
                    depthp += 1
                elif callpart[j] == '(':
                    depthp -= 1
                    if depthp == 0:
                        break
                j -= 1
            callee, argstr = callpart[:j], callpart[j + 1:-1]
            args = [s.eval_operand(st, fr, a) for a in split_top(argstr)]
            dst, _ = parse_place(lhs)
            rm = re.search(r'return: (bb\d+)', suffix)
            ret = rm.group(1) if rm else None
            my_unw = make_unw(suffix)

            def after(st2, rv):
                if ret is None:
                    raise PathEnd('diverged')
                st2.store(s.eval_place(st2, fr, dst), rv)
                return s.run_block(st2, fn, fr, ret, depth, cont, unw)
            kind, *tgt = s.resolve(callee, len(args))
            if kind == 'local':
                nm = tgt[0].name
                # raw-pointer conversions are summarised (see call_extern)
                if re.search(r'::(from_raw|into_raw|as_ptr)$', nm) and 'arc::' in nm and 'from_raw_inner' not in nm and 'into_raw_inner' not in nm and 'offset' not in nm:
                    return s.call_extern(st, 'arc::Arc::' + nm.split('::')[-1], args, after, fn, my_unw)
                if nm.endswith('allocate_for_header_and_slice'):
                    return s.call_extern(st, 'arc::Arc::allocate_for_header_and_slice', args, after, fn, my_unw)
                if nm == 'thin_arc::thin_to_thick' or nm.endswith('thin_to_thick'):
                    return s.call_extern(st, 'thin_to_thick', args, after, fn, my_unw)
                return s.call_fn(st, tgt[0], args, depth + 1, after, my_unw)
            if kind == 'generic':
                return s.call_generic(st, tgt[0], tgt[1], args, after, my_unw, callee)
            s._raw_callee = callee
            return s.call_extern(st, tgt[0], args, after, fn, my_unw)
        raise Unsupported(f'terminator {t!r} in {fn.name}')

    def eval_place(s, st, fr, pl):
        k = pl[0]
        if k == 'local':
            return Ptr(('L', fr, pl[1]))
        if k == 'deref':
            p = s.eval_place(st, fr, pl[1])
            v = st.load(p)
            if not isinstance(v, Ptr):
                raise Unsupported(f'deref of {v!r}')
            return v
        if k == 'field':
            p = s.eval_place(st, fr, pl[1])
            # #[repr(transparent)] payload wrapper: its single field is the value itself in our memory model
            try:
                bt = s.place_type(s._cur_fn, pl[1])
            except Exception:
                bt = ''
            if pl[2] == 0 and bt.strip().startswith('header::HeaderSliceWithLengthProtected<'):
                return p
            return mptr(p.root, p.path + (pl[2],), meta_of(p))
        if k == 'downcast':
            return s.eval_place(st, fr, pl[1])

    def eval_operand(s, st, fr, op):
        op = op.strip()
        if op.startswith('const ') and 'promoted[' in op:
            # reference to a compile-time constant we do not evaluate (e.g. size_of::<T>()): an unknown value
            st.nheap += 1
            root = ('P', st.nheap)
            st.mem[root] = st.fresh('promoted')
            return Ptr(root)
        if op.startswith('const "'):
            return Opaque('str')
        return super().eval_operand(st, fr, op)

    def eval_rvalue(s, st, fr, f, rv):
        rv = rv.strip()
        m = re.match(r'^PtrMetadata\((.*)\)$', rv)
        if m:
            v = s.eval_operand(st, fr, m.group(1))
            if meta_of(v) is None:
                raise Unsupported(f'PtrMetadata of a pointer without metadata: {v!r}')
            return meta_of(v)
        if re.match(r'^core::panicking::AssertKind::\w+$', rv):
            return Opaque('assert-kind')
        m = re.match(r'^(copy|move) (.*) as (.*) \((\w+)\)$', rv)
        if m:
            return s.eval_operand(st, fr, m.group(1) + ' ' + m.group(2))
        if rv.startswith('(') and rv.endswith(',)'):
            return Struct('tuple', [s.eval_operand(st, fr, rv[1:-2])])
        return super().eval_rvalue(st, fr, f, rv)


# ---------------------------------------------------------------------------- census
def has_uninit(v):
    if isinstance(v, Opaque) and v.what == 'uninit':
        return True
    if isinstance(v, (Struct, Enum)):
        return any(has_uninit(f) for f in v.fields)
    return False


def handles_in(v, out):
    """collect (allocation) for every owning handle value reachable in a caller-visible value"""
    if isinstance(v, Struct):
        f0 = unwrap_ptr(v.fields[0]) if v.fields else None
        if isinstance(f0, Ptr) and f0.root[0] == 'H' and re.search(r'Arc', v.ty or ''):
            out.append(f0.root[1])
            return
        for f in v.fields:
            handles_in(f, out)
    elif isinstance(v, Enum):
        for f in v.fields:
            handles_in(f, out)


def census(st, res, caller_place, by_value, c0):
    """returns list of (description, z3 condition that makes it a violation)"""
    bad = []
    owners = {}
    visible = []
    if caller_place is not None and not by_value:
        handles_in(st.load(caller_place), visible)
    if res[0] == 'ret':
        handles_in(res[1], visible)
    for x in visible:
        owners[x] = owners.get(x, 0) + 1
    for x, k in st.ext.items():
        owners[x] = owners.get(x, 0) + k
    for x, cur in st.cnt.items():
        n = owners.get(x, 0)
        expect = (c0 - 1 + n) if x == 'a0' else BitVecVal(n, 64)
        if x in st.freed:
            if n > 0:
                bad.append((f'allocation {x} was freed but {n} owning handle(s) still refer to it', BoolVal(True)))
            if x == 'a0':
                bad.append((f'allocation a0 was freed although other owners may exist', c0 - 1 + n != 0))
            continue
        bad.append((f'count word of {x} differs from the number of owning handles left ({n} visible'
                    + (' + c-1 others' if x == 'a0' else '') + ')', cur != expect))
    for x, m in st.free_meta.items():
        if x in st.true_len:
            bad.append((f'allocation {x} was released with a slice length different from its real one (wrong layout; elements leaked or over-dropped)', m != st.true_len[x]))
    if st.mem.get(('FLAG', 'uninit_drop')):
        bad.append(('an allocation with unwritten slots was destroyed (element destructors would run on uninitialised memory)', BoolVal(True)))
    if st.mem.get(('FLAG', 'double_drop')):
        bad.append(('an item yielded by the iterator was destroyed twice', BoolVal(True)))
    if st.mem.get(('FLAG', 'uaf')):
        bad.append(('the count of a freed allocation was accessed', BoolVal(True)))
    return bad


def fat_state(st, c0):
    """allocation a0 holding HeaderSlice<HeaderWithLength<H>, [T]> with real length L and RECORDED length R"""
    L = BitVec('len_true', 64)
    R = BitVec('len_recorded', 64)
    st.mem[('H', 'a0')] = Struct('ArcInner', [Struct('Atomic', [c0]),
                                              Struct('HeaderSlice', [Struct('HeaderWithLength', [Opaque('header'), R]), Opaque('slice')])])
    st.true_len['a0'] = L
    return L, R


APIS = [
    # name, function leaf, first param type prefix, handle struct type, by_value, extra args
    ('Arc::make_mut', 'make_mut', '&mut arc::Arc<T>', 'arc::Arc<T>', False, []),
    ('Arc::make_unique', 'make_unique', '&mut arc::Arc<T>', 'arc::Arc<T>', False, []),
    ('Arc::unwrap_or_clone', 'unwrap_or_clone', 'arc::Arc<T>', 'arc::Arc<T>', True, []),
    ('OffsetArc::make_mut', 'make_mut', '&mut offset_arc::OffsetArc<T>', 'offset_arc::OffsetArc<T>', False, []),
    ('OffsetArc::with_arc', 'with_arc', '&offset_arc::OffsetArc<T>', 'offset_arc::OffsetArc<T>', False, ['closure']),
    ('ArcBorrow::with_arc', 'with_arc', "&arc_borrow::ArcBorrow<'_, T>", 'arc_borrow::ArcBorrow<T>', False, ['closure']),
    ('ThinArc::with_arc', 'with_arc', '&ThinArc<H, T>', 'thin_arc::ThinArc<H, T>', False, ['closure']),
    ('ThinArc::with_arc_mut', 'with_arc_mut', '&mut ThinArc<H, T>', 'thin_arc::ThinArc<H, T>', False, ['closure']),
    ('Arc::with_raw_offset_arc', 'with_raw_offset_arc', '&arc::Arc<T>', 'arc::Arc<T>', False, ['closure']),
    ('Arc::into_thin', 'into_thin', 'arc::Arc<header::HeaderSlice<header::HeaderWithLength<H>, [T]>>', 'arc::Arc<header::HeaderSlice<header::HeaderWithLength<H>, [T]>>', True, []),
]


def run_api(fns, consts, api):
    name, leaf, p0, hty, by_value, extra = api
    cands = [f for f in fns if f.name.split('::')[-1] == leaf and f.params and f.params[0][1] == p0]
    if len(cands) != 1:
        raise Unsupported(f'{name}: function {leaf}({p0}) found {len(cands)} times in the MIR dump')
    fn = cands[0]
    I = UInterp(fns, consts)
    st = UState()
    c0 = BitVec('c', 64)
    st.pc += [UGE(c0, BitVecVal(1, 64)), ULE(c0, BitVecVal(MAXC, 64))]
    st.mem[('H', 'a0')] = Struct('ArcInner', [Struct('Atomic', [c0]), Opaque('payload')])
    st.cnt['a0'] = c0
    # the handle as the caller holds it; OffsetArc/ArcBorrow point at the data field
    data_ptr = 'OffsetArc' in hty or 'ArcBorrow' in hty
    handle = Struct(hty, [Ptr(('H', 'a0'), (1,)) if data_ptr else Ptr(('H', 'a0')), Opaque('zst')])
    if leaf == 'into_thin':
        L, R = fat_state(st, c0)
        handle = Struct(hty, [mptr(('H', 'a0'), (), L), Opaque('zst')])
    place = Ptr(('L', 0, 'h'))
    st.mem[place.root] = handle
    args = [handle] if by_value else [place]
    for e in extra:
        args.append(Opaque('closure:user'))
    done = []
    def cont(st2, rv):
        done.append((st2, ('ret', rv)))
    def unw(st2):
        done.append((st2, ('unwind', None)))
    try:
        I.call_fn(st, fn, args, 0, cont, unw)
    except PathEnd as e:
        done.append((st, ('end', e.why)))
    for st2, r in I.paths:
        done.append((st2, r))
    results = []
    for st2, res in done:
        if res[0] == 'end':
            if res[1] in ('abort', 'unreachable'):
                continue
            if res[1] == 'unwind':
                res = ('unwind', None)
            else:
                continue
        sol = Solver()
        sol.add(*st2.pc)
        if sol.check() != sat:
            continue
        checks = census(st2, res, place, by_value, c0)
        if leaf == 'into_thin' and res[0] == 'ret':
            checks.append(('into_thin accepted a recorded length that differs from the real slice length',
                           BitVec('len_recorded', 64) != BitVec('len_true', 64)))
        viol = None
        for desc, cond in checks:
            sol.push()
            sol.add(cond)
            if sol.check() == sat:
                viol = (desc, sol.model().eval(c0, model_completion=True).as_long())
                sol.pop()
                break
            sol.pop()
        results.append({'api': name, 'fn': fn.name, 'exit': res[0], 'steps': st2.trace, 'violation': viol,
                        'pc': str(simplify(And(*st2.pc)))})
    return results


def check_overflow_path(mir_text):
    """Arc::clone from a count already past the limit: every path must end in process termination and nothing that
    can panic (or return) may run between the overflow test and the abort."""
    fns, consts = mirsym.parse_mir(mir_text)
    cands = [f for f in fns if f.name.split('::')[-1] == 'clone' and f.params and f.params[0][1] == '&arc::Arc<T>']
    if len(cands) != 1:
        raise Unsupported(f'Arc::clone found {len(cands)} times in the MIR dump')
    I = UInterp(fns, consts)
    I.strict_unknown = True
    st = UState()
    c0 = BitVec('c', 64)
    st.pc += [mirsym.UGT(c0, BitVecVal((1 << 63) - 1, 64))]
    st.mem[('H', 'a0')] = Struct('ArcInner', [Struct('Atomic', [c0]), Opaque('payload')])
    st.cnt['a0'] = c0
    place = Ptr(('L', 0, 'h'))
    st.mem[place.root] = Struct('arc::Arc<T>', [Ptr(('H', 'a0')), Opaque('zst')])
    exits = []
    def cont(st2, rv):
        exits.append(('return', st2))
    def unw(st2):
        exits.append(('unwind', st2))
    try:
        I.call_fn(st, cands[0], [place], 0, cont, unw)
    except PathEnd as e:
        exits.append((e.why, st))
    for st2, r in I.paths:
        exits.append((r[1], st2))
    out = []
    for how, st2 in exits:
        sol = Solver()
        sol.add(*st2.pc)
        if sol.check() != sat:
            continue
        cval = sol.model().eval(c0, model_completion=True).as_long()
        out.append({'ends_by': how, 'steps': list(st2.trace), 'count': cval})
    return out


def check_abort_nostd(mir_text):
    """no_std `abort()`: every path must end in process termination (a panic raised while a panic is already
    unwinding), never by returning or by letting a single, catchable panic propagate."""
    fns, consts = mirsym.parse_mir(mir_text)
    cands = [f for f in fns if f.name == 'abort' and not f.params]
    if len(cands) != 1:
        raise Unsupported(f'no_std abort() found {len(cands)} times in the MIR dump')
    I = UInterp(fns, consts)
    st = UState()
    exits = []
    def cont(st2, rv):
        exits.append(('return', st2.trace))
    def unw(st2):
        exits.append(('unwind', st2.trace))
    try:
        I.call_fn(st, cands[0], [], 0, cont, unw)
    except PathEnd as e:
        exits.append((e.why, st.trace))
    for st2, r in I.paths:
        exits.append((r[1], st2.trace))
    return exits


def items_in(v, out):
    if isinstance(v, Opaque) and v.what.startswith('item'):
        out.append(v.what)
    elif isinstance(v, (Struct, Enum)):
        for f in v.fields:
            items_in(f, out)


def run_from_iter(fns, consts, n_items):
    """Arc::from_header_and_iter with an honest iterator of n_items whose `next` (and `len`) may panic at any
    call: the half-built block may be leaked, but nothing unwritten may ever be destroyed, no item may be
    destroyed twice, and a returned handle must be fully written."""
    cands = [f for f in fns if f.name.split('::')[-1] == 'from_header_and_iter' and f.name.startswith('header::')
             and len(f.params) == 2 and f.params[0][1] == 'H']
    if len(cands) != 1:
        raise Unsupported(f'Arc::from_header_and_iter found {len(cands)} times in the MIR dump')
    fn = cands[0]
    I = UInterp(fns, consts)
    I.iter_len = n_items
    st = UState()
    done = []
    def cont(st2, rv):
        done.append((st2, ('ret', rv)))
    def unw(st2):
        done.append((st2, ('unwind', None)))
    try:
        I.call_fn(st, fn, [Opaque('header-value'), Opaque('iter')], 0, cont, unw)
    except PathEnd as e:
        done.append((st, ('end', e.why)))
    for st2, r in I.paths:
        done.append((st2, r))
    results = []
    for st2, res in done:
        if res[0] == 'end':
            if res[1] == 'unwind':
                res = ('unwind', None)
            else:
                continue
        sol = Solver()
        sol.add(*st2.pc)
        if sol.check() != sat:
            continue
        viol = None
        for flag, msg in (('uninit_drop', 'an allocation with unwritten slots was destroyed'), ('double_drop', 'an item was destroyed twice'),
                          ('uaf', 'the count of a freed allocation was accessed')):
            if st2.mem.get(('FLAG', flag)):
                viol = (msg, None)
        built = [x for x in st2.cnt if x.startswith('built')]
        stored = []
        for x in built:
            if x not in st2.freed:
                items_in(st2.mem[('H', x)], stored)
        dropped = [k[1] for k in st2.mem if isinstance(k, tuple) and k[0] == 'DROPPED']
        if viol is None and set(stored) & set(dropped):
            viol = ('an item written into the allocation was also destroyed outside it', None)
        if viol is None and res[0] == 'ret':
            out = []
            handles_in(res[1], out)
            if len(out) != 1 or out[0] not in built:
                viol = ('the returned handle does not refer to the block that was built', None)
            else:
                x = out[0]
                if x in st2.freed or has_uninit(st2.mem[('H', x)]):
                    viol = ('a handle was returned although header or slots are unwritten (or the block was freed)', None)
                elif len(stored) != n_items:
                    viol = (f'{len(stored)} items stored, {n_items} expected', None)
                elif simplify(st2.cnt[x]).as_long() != 1:
                    viol = ('fresh handle is not a sole owner', None)
        results.append({'api': 'Arc::from_header_and_iter', 'fn': fn.name, 'exit': res[0], 'steps': st2.trace, 'violation': viol,
                        'pc': str(simplify(And(*st2.pc))) if st2.pc else 'true', 'n_items': n_items})
    return results


def run_all(mir_text):
    fns, consts = mirsym.parse_mir(mir_text)
    out = []
    errors = []
    for api in APIS:
        try:
            out += run_api(fns, consts, api)
        except Unsupported as e:
            errors.append((api[0], str(e)))
    for n in (0, 1, 2):
        try:
            out += run_from_iter(fns, consts, n)
        except Unsupported as e:
            errors.append(('Arc::from_header_and_iter', str(e)))
    return out, errors


if __name__ == '__main__':
    import sys, json
    rs, errs = run_all(open(sys.argv[1]).read())
    for e in errs:
        print('UNSUPPORTED', e)
    for r in rs:
        print(r['api'], r['exit'], '|', ' ; '.join(r['steps']), '|', r['violation'])
