//! Native replay of Engine U counterexamples: runs one (API, callback effect, outcome, count) scenario
//! against the real triomphe build with std::panic::catch_unwind and takes the same census natively.
//! exit 0: census holds; exit 1 (or a crash): violated.
use std::cell::RefCell;
use std::panic::{catch_unwind, AssertUnwindSafe};
use std::sync::atomic::{AtomicBool, AtomicUsize, Ordering::SeqCst};
use triomphe::*;

static DROPS: [AtomicUsize; 4] = [AtomicUsize::new(0), AtomicUsize::new(0), AtomicUsize::new(0), AtomicUsize::new(0)];
static PANIC_IN_CLONE: AtomicBool = AtomicBool::new(false);

struct Canary(usize);
impl Drop for Canary {
    fn drop(&mut self) {
        DROPS[self.0].fetch_add(1, SeqCst);
    }
}
impl Clone for Canary {
    fn clone(&self) -> Canary {
        if PANIC_IN_CLONE.load(SeqCst) {
            panic!("user Clone panics");
        }
        Canary(self.0 + 1)
    }
}
fn fail(msg: &str) -> ! {
    println!("CENSUS VIOLATED: {msg}");
    std::process::exit(1);
}
fn check(cond: bool, msg: &str) {
    if !cond {
        fail(msg);
    }
}

fn main() {
    let a: Vec<String> = std::env::args().collect();
    if a.len() >= 2 && a[1] == "overflow_child" {
        // count preset past the limit; a clone must kill the process. Coming back here at all is the violation.
        std::panic::set_hook(Box::new(|_| {}));
        let h = Arc::new(7usize);
        let cnt = h.heap_ptr() as *mut usize; // repr(C) ArcInner { count, data } (C05/C11)
        unsafe { *cnt = (isize::MAX as usize) + 2 };
        let r = catch_unwind(AssertUnwindSafe(|| std::mem::forget(h.clone())));
        println!("SURVIVED caught_panic={}", r.is_err());
        std::mem::forget(h);
        std::process::exit(43);
    }
    let (api, effect, outcome, c) = (a[1].as_str(), a[2].as_str(), a[3].as_str(), a[4].parse::<usize>().unwrap());
    std::panic::set_hook(Box::new(|_| {}));
    let panics = outcome == "panic";
    match api {
        "Arc::make_mut" | "Arc::make_unique" | "OffsetArc::make_mut" | "Arc::unwrap_or_clone" => {
            let h = Arc::new(Canary(0));
            let orig = h.heap_ptr();
            let others: Vec<Arc<Canary>> = (1..c).map(|_| h.clone()).collect();
            PANIC_IN_CLONE.store(panics, SeqCst);
            let mut survivors: Vec<Arc<Canary>> = Vec::new();
            match api {
                "Arc::make_mut" => {
                    let mut h = h;
                    let _ = catch_unwind(AssertUnwindSafe(|| {
                        Arc::make_mut(&mut h);
                    }));
                    survivors.push(h);
                }
                "Arc::make_unique" => {
                    let mut h = h;
                    let _ = catch_unwind(AssertUnwindSafe(|| {
                        Arc::make_unique(&mut h);
                    }));
                    survivors.push(h);
                }
                "OffsetArc::make_mut" => {
                    let mut o = Arc::into_raw_offset(h);
                    let _ = catch_unwind(AssertUnwindSafe(|| {
                        o.make_mut();
                    }));
                    survivors.push(Arc::from_raw_offset(o));
                }
                _ => {
                    let r = catch_unwind(AssertUnwindSafe(|| Arc::unwrap_or_clone(h)));
                    drop(r);
                }
            }
            PANIC_IN_CLONE.store(false, SeqCst);
            let on_orig = survivors.iter().filter(|s| s.heap_ptr() == orig).count() + others.len();
            if let Some(w) = others.first() {
                check(Arc::count(w) == on_orig, "count of the original allocation differs from the number of surviving handles");
            } else if let Some(s) = survivors.iter().find(|s| s.heap_ptr() == orig) {
                check(Arc::count(s) == on_orig, "count of the original allocation differs from the number of surviving handles");
            }
            for s in &survivors {
                if s.heap_ptr() != orig {
                    check(Arc::count(s) == 1, "the copy is not solely owned");
                }
            }
            drop(survivors);
            drop(others);
            check(DROPS[0].load(SeqCst) == 1, "original value not destroyed exactly once");
        }
        "Arc::clone_overflow" => {
            // run the child with an unwritable stderr (any diagnostics the library tries to print must not turn the
            // abort into a catchable panic) and with a normal one
            for err in ["/dev/full", "/dev/null"] {
                let f = std::fs::OpenOptions::new().write(true).open(err).unwrap();
                let out = std::process::Command::new(std::env::current_exe().unwrap())
                    .arg("overflow_child").stderr(f).output().unwrap();
                if out.status.code() == Some(43) {
                    fail(&format!("the process survived a clone past the limit (stderr={err}): {}", String::from_utf8_lossy(&out.stdout).trim()));
                }
                check(out.status.code().is_none(), "child neither aborted nor survived?");
            }
        }
        "Arc::with_raw_offset_arc" => {
            let h = Arc::new(Canary(0));
            let others: Vec<Arc<Canary>> = (1..c).map(|_| h.clone()).collect();
            let kept: RefCell<Option<OffsetArc<Canary>>> = RefCell::new(None);
            let _ = catch_unwind(AssertUnwindSafe(|| {
                h.with_raw_offset_arc(|o| {
                    if effect == "clone_kept" {
                        *kept.borrow_mut() = Some(o.clone());
                    }
                    if panics {
                        panic!("callback panics");
                    }
                })
            }));
            let n = 1 + others.len() + kept.borrow().is_some() as usize;
            check(Arc::count(&h) == n, "count differs from the number of surviving handles");
            drop(others);
            drop(kept);
            check(Arc::count(&h) == 1, "count differs from the number of surviving handles");
            drop(h);
            check(DROPS[0].load(SeqCst) == 1, "value not destroyed exactly once");
        }
        "OffsetArc::with_arc" | "ArcBorrow::with_arc" | "ThinArc::with_arc" | "ThinArc::with_arc_mut" => {
            // ThinArc-shaped payload for all four (OffsetArc/ArcBorrow use a sized payload)
            let kept_sized: RefCell<Option<Arc<Canary>>> = RefCell::new(None);
            if api == "OffsetArc::with_arc" || api == "ArcBorrow::with_arc" {
                let h = Arc::new(Canary(0));
                let others: Vec<Arc<Canary>> = (1..c).map(|_| h.clone()).collect();
                let cb = |x: &Arc<Canary>| {
                    if effect == "clone_kept" {
                        *kept_sized.borrow_mut() = Some(x.clone());
                    }
                    if panics {
                        panic!("callback panics");
                    }
                };
                if api == "OffsetArc::with_arc" {
                    let o = Arc::into_raw_offset(h);
                    let _ = catch_unwind(AssertUnwindSafe(|| o.with_arc(cb)));
                    let h = Arc::from_raw_offset(o);
                    let n = 1 + others.len() + kept_sized.borrow().is_some() as usize;
                    check(Arc::count(&h) == n, "count differs from the number of surviving handles");
                } else {
                    let _ = catch_unwind(AssertUnwindSafe(|| h.borrow_arc().with_arc(cb)));
                    let n = 1 + others.len() + kept_sized.borrow().is_some() as usize;
                    check(Arc::count(&h) == n, "count differs from the number of surviving handles");
                }
                drop(others);
                drop(kept_sized);
                check(DROPS[0].load(SeqCst) <= 1, "value destroyed more than once");
                return;
            }
            type Fat = Arc<HeaderSliceWithLengthProtected<Canary, u8>>;
            let mut t = ThinArc::from_header_and_slice(Canary(0), &[1u8, 2]);
            let orig = t.heap_ptr();
            let others: Vec<ThinArc<Canary, u8>> = (1..c).map(|_| t.clone()).collect();
            let kept: RefCell<Option<ThinArc<Canary, u8>>> = RefCell::new(None);
            let repl = ThinArc::from_header_and_slice(Canary(2), &[9u8]);
            let repl_ptr = repl.heap_ptr();
            let mut repl = Some(repl);
            if api == "ThinArc::with_arc" {
                let _ = catch_unwind(AssertUnwindSafe(|| {
                    t.with_arc(|x| {
                        if effect == "clone_kept" {
                            *kept.borrow_mut() = Some(Arc::into_thin(x.clone()));
                        }
                        if panics {
                            panic!("callback panics");
                        }
                    })
                }));
            } else {
                let _ = catch_unwind(AssertUnwindSafe(|| {
                    t.with_arc_mut(|x: &mut Fat| {
                        if effect == "clone_kept" {
                            *kept.borrow_mut() = Some(Arc::protected_into_thin(x.clone()));
                        }
                        if effect == "replace" {
                            *x = Arc::protected_from_thin(repl.take().unwrap());
                        }
                        if panics {
                            panic!("callback panics");
                        }
                    })
                }));
            }
            if effect == "replace" && api == "ThinArc::with_arc_mut" {
                check(t.heap_ptr() == repl_ptr, "the ThinArc does not point at the replacement after the callback replaced the Arc");
                check(ThinArc::strong_count(&t) == 1, "replacement is not solely owned");
                if let Some(w) = others.first() {
                    check(ThinArc::strong_count(w) == others.len(), "old allocation did not lose exactly one owner");
                } else {
                    check(DROPS[0].load(SeqCst) == 1, "old value not destroyed exactly once after its last owner was replaced");
                }
            } else {
                check(t.heap_ptr() == orig, "handle changed");
                let n = 1 + others.len() + kept.borrow().is_some() as usize;
                check(ThinArc::strong_count(&t) == n, "count differs from the number of surviving handles");
            }
            drop(others);
            drop(kept);
            drop(t);
            drop(repl);
            check(DROPS[0].load(SeqCst) == 1 && DROPS[2].load(SeqCst) == 1, "a value was not destroyed exactly once");
        }
        "Arc::from_header_and_iter" => {
            // honest iterator of `c` items whose next() panics at call number `k` (effect = "panic_at_<k>"):
            // the half-built block may leak, but no destructor may run on an unwritten slot and no item twice
            const MAGIC: u64 = 0x5eed_f00d_cafe_d00d;
            static ITEM_DROPS: [AtomicUsize; 8] = [AtomicUsize::new(0), AtomicUsize::new(0), AtomicUsize::new(0), AtomicUsize::new(0),
                                                   AtomicUsize::new(0), AtomicUsize::new(0), AtomicUsize::new(0), AtomicUsize::new(0)];
            struct El {
                magic: u64,
                id: usize,
            }
            impl Drop for El {
                fn drop(&mut self) {
                    if self.magic != MAGIC || self.id >= 8 {
                        fail("a destructor ran on a slot that was never written");
                    }
                    if ITEM_DROPS[self.id].fetch_add(1, SeqCst) != 0 {
                        fail("an item was destroyed twice");
                    }
                }
            }
            struct It {
                calls: usize,
                n: usize,
                panic_at: usize,
            }
            impl Iterator for It {
                type Item = El;
                fn next(&mut self) -> Option<El> {
                    self.calls += 1;
                    if self.calls == self.panic_at {
                        panic!("user iterator panics");
                    }
                    if self.calls <= self.n {
                        Some(El { magic: MAGIC, id: self.calls - 1 })
                    } else {
                        None
                    }
                }
                fn size_hint(&self) -> (usize, Option<usize>) {
                    let r = self.n - (self.calls.min(self.n));
                    (r, Some(r))
                }
            }
            impl ExactSizeIterator for It {}
            let k: usize = effect.trim_start_matches("panic_at_").parse().unwrap();
            let r = catch_unwind(AssertUnwindSafe(|| Arc::from_header_and_iter(Canary(0), It { calls: 0, n: c, panic_at: k })));
            match r {
                Ok(a) => {
                    check(a.slice.len() == c, "wrong length");
                    drop(a);
                    for i in 0..c {
                        check(ITEM_DROPS[i].load(SeqCst) == 1, "an item was not destroyed exactly once by the finished allocation");
                    }
                }
                Err(_) => {
                    for i in 0..c {
                        check(ITEM_DROPS[i].load(SeqCst) <= 1, "an item was destroyed twice");
                    }
                }
            }
        }
        "Arc::into_thin" => {
            // a fat Arc whose recorded length (1) disagrees with its slice length (3): into_thin must refuse by
            // panicking and still release that Arc properly
            struct El(u8);
            static EL_DROPS: AtomicUsize = AtomicUsize::new(0);
            impl Drop for El {
                fn drop(&mut self) {
                    EL_DROPS.fetch_add(1, SeqCst);
                }
            }
            let a = Arc::from_header_and_iter(HeaderWithLength::new(Canary(0), 1), vec![El(1), El(2), El(3)].into_iter());
            let others: Vec<_> = (1..c).map(|_| a.clone()).collect();
            let r = catch_unwind(AssertUnwindSafe(|| Arc::into_thin(a)));
            check(r.is_err(), "into_thin accepted a mismatching recorded length");
            if let Some(w) = others.first() {
                check(Arc::count(w) == others.len(), "the refused Arc was not released (count not lowered by one)");
                check(EL_DROPS.load(SeqCst) == 0 && DROPS[0].load(SeqCst) == 0, "destroyed while owners remain");
            }
            drop(others);
            check(EL_DROPS.load(SeqCst) == 3, "the refused Arc was not released properly: not all slice elements were destroyed exactly once");
            check(DROPS[0].load(SeqCst) == 1, "header not destroyed exactly once");
        }
        _ => {
            println!("unknown api {api}");
            std::process::exit(3);
        }
    }
    println!("census holds");
}
