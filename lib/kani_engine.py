"""Engine K: run the Kani harness crate against /repo's current working tree and classify results.

One `cargo kani` invocation per (property, profile): harnesses are selected by module path
(`cNN::`) and tier prefix, verified in parallel (`-j`), and the per-check results are read from
Kani's structured `--export-json` output.  Nothing is cached between runs except cargo's own
incremental build, which is keyed on /repo's file contents/mtimes, so the encoding is regenerated
from the current sources every time.
"""
import json, os, re, subprocess, time, shutil
from common import *

KANI_CRATE = os.path.join(VERIF, "kani")

# Profiles: the dev profile Kani models by default, and a release-like one without
# debug assertions (triomphe's debug_assert!s must not be what saves a release build).
PROFILES = {
    "dev": GUARD_CFG,
    "nodebug": GUARD_CFG + " -C debug-assertions=off",
}

# Functions of core/alloc through which *safe* code panics.  A failed check located in one of
# these (or anywhere under /repo/src with class `assertion`) is "the library refused by
# panicking".  Everything else (pointer checks, UB preconditions, allocator-model assertions,
# harness assertions) is never excused.
PANIC_PLUMBING = re.compile(
    r"^(core|std)::(option::expect_failed|option::unwrap_failed|result::unwrap_failed|"
    r"panicking::(panic|panic_fmt|panic_display|panic_explicit|panic_str_2015|unreachable_display|"
    r"assert_failed|assert_failed_inner|assert_matches_failed|panic_const::[a-z_0-9]+|"
    r"panic_bounds_check)|slice::index::[a-z_]+_fail|alloc::raw_vec::capacity_overflow|"
    r"alloc::handle_alloc_error)\b"
)
NEVER_OK_DESC = re.compile(
    r"unsafe precondition|dereference failure|misaligned|null pointer|__rust_dealloc|"
    r"deallocated|dead object|invalid integer address|outside object bounds|double free|"
    r"free argument|unwinding assertion|recursion unwinding|is not currently supported|abort\(\)",
    re.I,
)


class Harness:
    def __init__(self, name):
        self.name = name
        self.status = None
        self.checks = []
        self.failed = []
        self.covers = []
        self.stats = {}
        self.duration_ms = 0
        self.profile = None
        self.verdict = None  # pass | violation | inconclusive
        self.reasons = []
        self.allowed_panics = []

    @property
    def leaf(self):
        return self.name.split("::")[-1]

    @property
    def panics_allowed(self):
        # tier prefixes: q_, t_, r<k>_ ; a trailing `p` in the prefix (qp_, tp_, r0p_) marks
        # harnesses in which the library may refuse by panicking (DESIGN 3.6)
        return bool(re.match(r"^(q|t|r\d)p_", self.leaf))


def in_repo_src(path):
    p = os.path.normpath(path) if path else ""
    return p.startswith(os.path.join(REPO, "src") + os.sep)


def in_harness_crate(path):
    if not path:
        return False
    if not os.path.isabs(path):
        return True  # Kani prints harness-crate paths relative to the crate root
    return os.path.normpath(path).startswith(KANI_CRATE + os.sep)


OVERFLOW_DESC = re.compile(r"attempt to (add|subtract|multiply|negate|shift left|shift right) with overflow|attempt to compute .* which would overflow")


def is_library_panic(chk):
    """A failed check that is a safe-code panic raised by triomphe (or by core on its behalf)."""
    desc = chk.get("description", "")
    if chk.get("category") != "assertion":
        return False
    if NEVER_OK_DESC.search(desc):
        return False
    loc = chk.get("location", {}) or {}
    f = loc.get("file", "")
    if in_harness_crate(f):
        return False
    if in_repo_src(f):
        return True
    fn = chk.get("function", "")
    if "/library/" in f and PANIC_PLUMBING.match(fn):
        return True
    return False


def selectors(module, tier):
    """Harness-name filters for a tier. quick: q_/qp_ plus one rotation group r<k>_ chosen by
    VERIF_SEED; thorough: everything in the module."""
    if tier == "thorough":
        return [module + "::"]
    k = seed() % 3
    return [f"{module}::q_", f"{module}::qp_", f"{module}::r{k}_", f"{module}::r{k}p_"]


def kani_env(profile, extra_rustflags="", crate=None):
    env = dict(os.environ)
    env["CARGO_NET_OFFLINE"] = "true"
    env["RUSTFLAGS"] = (PROFILES[profile] + " " + extra_rustflags).strip()
    tag = "" if crate in (None, KANI_CRATE) else os.path.basename(crate) + "-"
    env["CARGO_TARGET_DIR"] = os.path.join(TARGET, "kani-" + tag + profile)
    env.pop("RUSTC_WRAPPER", None)
    return env


def sync_lockfile(crate=KANI_CRATE):
    """The harness crate resolves dependencies offline from /repo's lock file."""
    src = os.path.join(REPO, "Cargo.lock")
    dst = os.path.join(crate, "Cargo.lock")
    if os.path.exists(src) and not os.path.exists(dst):
        shutil.copy(src, dst)


def run_kani(module, tier, profile="dev", jobs=None, timeout_s=None, extra_filters=None,
             crate=KANI_CRATE, exact=None, tag=None, filters=None):
    """Run all harnesses of `module` for `tier`; returns (list[Harness], raw_info)."""
    ensure_dirs()
    sync_lockfile(crate)
    tag = tag or module
    out_json = os.path.join(WORK, f"{tag}-{tier}-{profile}.json")
    log_path = os.path.join(WORK, f"{tag}-{tier}-{profile}.log")
    if os.path.exists(out_json):
        os.remove(out_json)
    jobs = jobs or int(os.environ.get("VERIF_JOBS", "12"))
    timeout_s = timeout_s or (int(os.environ.get("VERIF_HARNESS_TIMEOUT_S", "1200")) if tier == "quick" else 3600)
    cmd = ["cargo", "kani", "-Z", "stubbing", "-Z", "unstable-options",
           "--output-format", "terse", "-j", str(jobs),
           "--harness-timeout", f"{timeout_s}s", "--export-json", out_json]
    if exact:
        for h in exact:
            cmd += ["--harness", h]
        cmd += ["--exact"]
    else:
        for s in (filters or selectors(module, tier)) + (extra_filters or []):
            cmd += ["--harness", s]
    t0 = time.time()
    with open(log_path, "w") as lf:
        # cargo-kani itself is not capped; a watchdog kills any CBMC descendant whose resident set passes the
        # limit (a runaway CBMC must not take the sandbox down; the harness then counts as inconclusive)
        env = kani_env(profile, crate=crate)
        proc = subprocess.Popen(cmd, cwd=crate, env=env, stdout=lf, stderr=subprocess.STDOUT)
        killed = _watch(proc, int(os.environ.get("VERIF_CBMC_RSS_MB", "14000")))
    p = proc
    try:
        prune_target(env)
    except Exception:
        pass
    wall = time.time() - t0
    info = {"cmd": " ".join(cmd), "rc": p.returncode, "wall_s": wall, "log": log_path, "cbmc_killed_over_memory": killed,
            "profile": profile, "rustflags": kani_env(profile)["RUSTFLAGS"]}
    if REPO != "/repo":
        # a repo under test elsewhere (development aid): point the path dependency there
        ct = os.path.join(crate, "Cargo.toml")
        t = open(ct).read()
        if 'path = "/repo"' in t:
            open(ct, "w").write(t.replace('path = "/repo"', f'path = "{REPO}"'))
    with open(log_path, errors="replace") as f:
        logtxt = f.read()
    info["stubs"] = sorted(set(m.strip() for m in re.findall(r"- Stub: (.*)", logtxt)))
    if not os.path.exists(out_json):
        m = re.search(r"error(\[E\d+\])?: .*", logtxt)
        info["error"] = (m.group(0) if m else "no export-json produced") + f" (see {log_path})"
        if "no harnesses matched" in logtxt.lower() or "No proof harnesses" in logtxt:
            info["error"] = "no harnesses matched the selection"
        return [], info
    with open(out_json) as f:
        data = json.load(f)
    info["tools"] = data.get("tools", {})
    hs = {}
    for r in data.get("verification_results", {}).get("results", []):
        h = Harness(r["harness_id"])
        h.profile = profile
        h.status = r.get("status")
        h.duration_ms = r.get("duration_ms", 0)
        h.checks = r.get("checks", [])
        hs[h.name] = h
    for c in data.get("cbmc", []):
        if c["harness_id"] in hs:
            hs[c["harness_id"]].stats = c.get("cbmc_stats", {})
    for e in data.get("error_details", []):
        if e["harness_id"] in hs:
            hs[e["harness_id"]].error = e
    expected = [m["pretty_name"] for m in data.get("harness_metadata", [])]
    for n in expected:
        if n not in hs:
            h = Harness(n)
            h.profile = profile
            h.status = "Missing"
            hs[n] = h
    for h in hs.values():
        classify(h)
    return sorted(hs.values(), key=lambda h: h.name), info


def prune_target(env, keep=2):
    """Kani keeps one output directory per build hash (hundreds of MB each); keep only the newest few."""
    import glob, shutil
    base = os.path.join(env["CARGO_TARGET_DIR"], "kani", "*", "debug", "build", "*")
    for pkg in glob.glob(base):
        dirs = sorted((d for d in glob.glob(os.path.join(pkg, "*")) if os.path.isdir(d)), key=os.path.getmtime, reverse=True)
        for d in dirs[keep:]:
            shutil.rmtree(d, ignore_errors=True)


def _watch(proc, limit_mb):
    """poll the process tree below `proc`; kill CBMC processes over the RSS limit; returns their count"""
    killed = 0
    while proc.poll() is None:
        try:
            out = subprocess.run(["ps", "-eo", "pid,ppid,rss,comm"], capture_output=True, text=True).stdout
            rows = [l.split(None, 3) for l in out.splitlines()[1:]]
            kids = {}
            for pid, ppid, rss, comm in (r for r in rows if len(r) == 4):
                kids.setdefault(ppid, []).append((pid, int(rss), comm))
            stack, seen = [str(proc.pid)], set()
            while stack:
                q = stack.pop()
                for pid, rss, comm in kids.get(q, []):
                    if pid in seen:
                        continue
                    seen.add(pid)
                    stack.append(pid)
                    if comm.strip().startswith("cbmc") and rss > limit_mb * 1024:
                        try:
                            os.kill(int(pid), 9)
                            killed += 1
                        except OSError:
                            pass
        except Exception:
            pass
        try:
            proc.wait(timeout=5)
        except subprocess.TimeoutExpired:
            pass
    return killed


def _q(s):
    return "'" + s.replace("'", "'\\''") + "'"


def classify(h):
    """Decide pass / violation / inconclusive for one harness from its per-check list."""
    h.failed, h.covers, h.allowed_panics, h.reasons = [], [], [], []
    bad, inconcl = [], []
    n_real = 0
    for c in h.checks:
        st = (c.get("status") or "").upper()
        cat = c.get("category", "")
        desc = c.get("description", "")
        if cat == "cover" or st in ("SATISFIED", "UNSATISFIABLE", "UNSAT"):
            h.covers.append(c)
            if st != "SATISFIED":
                inconcl.append(f"cover witness not satisfied: {desc!r} ({st})")
            continue
        n_real += 1
        if st == "FAILURE" or st == "FAILED":
            h.failed.append(c)
            if "unwinding assertion" in desc or cat == "unwind":
                inconcl.append("unwinding assertion failed: bound too small")
            elif cat == "unsupported_construct":
                inconcl.append("reached a construct Kani does not support: " + desc[:80])
            elif h.profile == "nodebug" and in_repo_src((c.get("location") or {}).get("file", "")) and OVERFLOW_DESC.search(desc):
                # Kani keeps rustc's overflow checks on whatever the flags say; the build this profile stands for
                # (release: debug assertions AND overflow checks off) wraps silently at this point, so what follows
                # is not what the solver explored: refusing by "overflow panic" does not exist there.
                c = dict(c, description=desc + "  [arithmetic overflow in library code: a release build does not panic here, it wraps]")
                bad.append(c)
            elif h.panics_allowed and is_library_panic(c):
                h.allowed_panics.append(c)
            else:
                bad.append(c)
        elif st in ("UNDETERMINED", "UNKNOWN", "ERROR", "SOLVER_ERROR"):
            # undetermined checks accompany a failure elsewhere; alone they are inconclusive
            pass
    if h.status not in ("Success", "Failure"):
        inconcl.append(f"harness status {h.status!r} (timeout / out of memory / crash)")
    if n_real == 0 and h.status in ("Success", "Failure"):
        inconcl.append("no checks reported")
    if bad:
        h.verdict = "violation"
        h.reasons = [fmt_check(c) for c in bad]
    elif inconcl:
        h.verdict = "inconclusive"
        h.reasons = inconcl
    elif h.status == "Failure" and not h.allowed_panics:
        h.verdict = "inconclusive"
        h.reasons = ["Kani reported failure without an attributable failed check"]
    else:
        h.verdict = "pass"
    return h


def fmt_check(c):
    loc = c.get("location", {}) or {}
    return f"{c.get('description','?')} [{c.get('category','?')}] at {loc.get('file','?')}:{loc.get('line','?')} in {c.get('function','?')}"


def triomphe_functions(h):
    fs = set()
    for c in h.checks:
        loc = c.get("location", {}) or {}
        if in_repo_src(loc.get("file", "")):
            fs.add(_strip_generics(c.get("function", "")))
    return fs


def _strip_generics(name):
    """`triomphe::Arc::<u8>::clone` -> `triomphe::Arc::clone` (balanced angle brackets removed)"""
    if name.startswith("<"):
        depth = 0
        for j, ch in enumerate(name):
            if ch == "<":
                depth += 1
            elif ch == ">" and name[j - 1] != "-":
                depth -= 1
                if depth == 0:
                    return "<" + _strip_generics(name[1:j]) + ">" + _strip_generics(name[j + 1:])
        return name
    out, depth, i = [], 0, 0
    while i < len(name):
        ch = name[i]
        if ch == "<" :
            depth += 1
        elif ch == ">" and (i == 0 or name[i - 1] != "-"):
            depth = max(0, depth - 1)
        elif depth == 0:
            out.append(ch)
        i += 1
    r = "".join(out).replace("::::", "::")
    return r if r.strip(":") else name


def harness_summary(h):
    st = h.stats or {}
    return {
        "harness": h.name,
        "profile": h.profile,
        "verdict": h.verdict,
        "checks": sum(1 for c in h.checks if c.get("category") != "cover"),
        "failed_checks": len(h.failed),
        "library_panics_excused": len(h.allowed_panics),
        "cover_witnesses": f"{sum(1 for c in h.covers if (c.get('status') or '').upper()=='SATISFIED')}/{len(h.covers)}",
        "vccs": st.get("vccs_generated"),
        "solver_s": round((st.get("runtime_solver_s") or 0) + (st.get("runtime_decision_procedure_s") or 0), 3),
        "symex_s": round(st.get("runtime_symex_s") or 0, 3),
        "wall_ms": h.duration_ms,
        "triomphe_functions_with_checks": len(triomphe_functions(h)),
        "reasons": h.reasons[:4],
    }


def module_doc(module, crate=KANI_CRATE):
    """BOUNDS:/ASSUME:/OUTSIDE: lines from the harness module's header (kept next to the code)."""
    p = os.path.join(crate, "src", module + ".rs")
    out = {"bounds": [], "assumptions": [], "outside": []}
    if not os.path.exists(p):
        return out
    cur = None
    with open(p) as f:
        for line in f:
            if not line.startswith("//!"):
                if line.strip() == "" or line.startswith("//"):
                    continue
                break
            t = line[3:].strip()
            m = re.match(r"^(BOUNDS|ASSUME|OUTSIDE):\s*(.*)", t)
            if m:
                cur = {"BOUNDS": "bounds", "ASSUME": "assumptions", "OUTSIDE": "outside"}[m.group(1)]
                out[cur].append(m.group(2))
            elif cur and t and line.startswith("//!   "):
                out[cur][-1] += " " + t
            else:
                cur = None
    return out
