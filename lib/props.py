"""Which engines decide which property (DESIGN.md section 0)."""
Q_DEV = {"quick": ["dev"], "thorough": ["dev"]}
Q_DEV_T_BOTH = {"quick": ["dev"], "thorough": ["dev", "nodebug"]}

ND = {"quick": ["nodebug"], "thorough": ["nodebug"]}
def ponly(module):
    """quick tier only (thorough runs the whole module in both profiles): the may-panic harnesses without debug assertions"""
    return {"module": module, "profiles": {"quick": ["nodebug"], "thorough": []}, "ponly": True}
def funnel(*names):
    return {"module": "c02", "profiles": ND, "filters": ["c02::q_" + n for n in names]}

PROPS = {
    "C02": {"kani": [{"module": "c02", "profiles": {"quick": ["nodebug"], "thorough": ["nodebug"]}}], "wmm": True, "prepare": True},
    "C06": {"kani": [{"module": "c06", "profiles": Q_DEV_T_BOTH}, ponly("c06")]},
    "C07": {"kani": [{"module": "c07", "profiles": Q_DEV_T_BOTH}, ponly("c07")], "unwind": True},
    "C14": {"kani": [{"module": "c14", "profiles": Q_DEV}]},
    "C15": {"kani": [{"module": "c15", "profiles": Q_DEV_T_BOTH}, ponly("c15"),
                     # the uninit slice constructors for EVERY length: the request is the reference layout or refused (both profiles)
                     {"module": "c05", "profiles": {"quick": ["dev", "nodebug"], "thorough": ["dev", "nodebug"]}, "filters": ["c05::qp_layout_only_new_uninit_slice", "c05::qp_layout_only_u8_u32", "c05::qp_layout_only_u8_s5a16"]}]},
    "C17": {"kani": [{"module": "c17", "profiles": Q_DEV}]},
    "C10": {"kani": [{"module": "c10", "profiles": Q_DEV_T_BOTH}, ponly("c10"), {"module": "c07", "profiles": {"quick": ["dev", "nodebug"], "thorough": ["dev", "nodebug"]}, "filters": ["c07::qp_thin_"]}], "unwind": ["ThinArc::with_arc_mut", "ThinArc::with_arc", "Arc::into_thin"]},
    "C11": {"kani": [{"module": "c11", "profiles": Q_DEV}],
            # the OffsetArc / raw-offset forms re-build a transient Arc from the pointer: also when the callback or Clone unwinds
            # the pointer must still lead to the same allocation with the same count
            "unwind": ["OffsetArc::with_arc", "OffsetArc::make_mut", "Arc::with_raw_offset_arc", "ArcBorrow::with_arc"]},
    "C12": {"kani": [{"module": "c12", "profiles": Q_DEV}]},
    "C05": {"kani": [{"module": "c05", "profiles": Q_DEV_T_BOTH}, ponly("c05"),
                     # a ThinArc whose recorded length is wrong releases its block with a wrong layout: into_thin must refuse (both profiles)
                     {"module": "c10", "profiles": {"quick": ["dev", "nodebug"], "thorough": ["dev", "nodebug"]}, "filters": ["c10::qp_into_thin_mismatch"]}]},
    "C04": {"kani": [{"module": "c04", "profiles": Q_DEV},
                     # count bookkeeping of the operations that redirect or consume a handle (harnesses shared with C08 / C09)
                     {"module": "c08", "profiles": Q_DEV, "filters": ["c08::q_arc_make_mut", "c08::q_arc_make_unique", "c08::q_offset_make_mut"]},
                     {"module": "c09", "profiles": Q_DEV, "filters": ["c09::q_try_unwrap", "c09::q_unwrap_or_clone", "c09::q_try_unique"]}], "unwind": True},
    "C03": {"kani": [{"module": "c03", "profiles": Q_DEV_T_BOTH}, ponly("c03"), funnel("funnel_get_unique", "funnel_try_from", "funnel_make_unique", "funnel_offset_make_mut", "funnel_thin_with_arc_mut_get_mut", "tv_get_mut", "tv_is_unique", "tv_try_unique", "tv_make_mut")], "wmm": True, "prepare": True, "unwind": True},
    "C08": {"kani": [{"module": "c08", "profiles": Q_DEV_T_BOTH}, funnel("funnel_make_unique", "funnel_offset_make_mut", "tv_make_mut", "tv_is_unique")], "wmm": True, "prepare": True, "unwind": True},
    "C09": {"kani": [{"module": "c09", "profiles": Q_DEV_T_BOTH}, funnel("funnel_try_from", "tv_try_unwrap", "tv_unwrap_or_clone", "tv_try_unique", "tv_drop")], "wmm": True, "prepare": True,
            # every API that runs user code with a transient handle in flight: a reference released by an unwinding path is
            # what lets a later try_unwrap hand the value out while another owner still keeps it
            "unwind": True},
    "C01": {"kani": [{"module": "c01", "profiles": Q_DEV}], "unwind": True},
    "C16": {"kani": [{"module": "c16", "profiles": {"quick": ["dev", "nodebug"], "thorough": ["dev", "nodebug"]}}, {"module": "c16n", "crate": "kani_nostd", "profiles": Q_DEV}], "unwind": ["abort_nostd"]},
}
