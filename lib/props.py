"""Which engines decide which property (DESIGN.md section 0)."""
Q_DEV = {"quick": ["dev"], "thorough": ["dev"]}
Q_DEV_T_BOTH = {"quick": ["dev"], "thorough": ["dev", "nodebug"]}

PROPS = {
    "C16": {"kani": [{"module": "c16", "profiles": Q_DEV_T_BOTH}]},
}
