"""Engine U driver: sequential, unwinding-aware symbolic execution of the MIR of the APIs that run user
code; census decided by z3; counterexamples replayed natively with catch_unwind (native/ crate)."""
import json, os, re, subprocess, sys, time, hashlib
from common import *
import wmm_engine

NATIVE = os.path.join(VERIF, "native")


def native_replay(api, effect, outcome, c):
    env = dict(os.environ, CARGO_NET_OFFLINE="true", CARGO_TARGET_DIR=os.path.join(TARGET, "native"))
    env.pop("RUSTFLAGS", None)
    crate = NATIVE
    if REPO != "/repo":
        # build a copy whose path dependency points at the repo under test
        import shutil
        crate = os.path.join(WORK, "native-copy")
        shutil.rmtree(crate, ignore_errors=True)
        shutil.copytree(NATIVE, crate)
        t = open(os.path.join(crate, "Cargo.toml")).read().replace('path = "/repo"', f'path = "{REPO}"')
        open(os.path.join(crate, "Cargo.toml"), "w").write(t)
    if not os.path.exists(os.path.join(crate, "Cargo.lock")):
        import shutil
        shutil.copy(os.path.join(REPO, "Cargo.lock"), crate)
    out = []
    for prof in ([], ["--release"]):
        b = subprocess.run(["cargo", "build", "--offline", "-q"] + prof, cwd=crate, env=env, capture_output=True, text=True)
        if b.returncode != 0:
            out.append({"profile": "release" if prof else "dev", "exit": None, "output": b.stderr[-300:]})
            continue
        exe = os.path.join(env["CARGO_TARGET_DIR"], "release" if prof else "debug", "native_replay")
        try:
            r = subprocess.run([exe, api, effect, outcome, str(c)], capture_output=True, text=True, timeout=60)
            out.append({"profile": "release" if prof else "dev", "exit": r.returncode, "output": (r.stdout + r.stderr)[-300:].strip()})
        except subprocess.TimeoutExpired:
            out.append({"profile": "release" if prof else "dev", "exit": None, "output": "timeout"})
    return out


def run(prop, tier, apis=None):
    t0 = time.time()
    res = {"violations": [], "inconclusive": [], "queries": 0, "nontrivial": 0, "coverage": {}, "assumptions": []}
    if apis == ["abort_nostd"]:
        res["coverage"] = {"engine": "MIR symbolic execution with unwind edges (wmm/unwind.py)", "samples": []}
        run_abort_nostd(prop, res)
        run_overflow_path(prop, res)
        res["assumptions"] = ["Engine U: core's panic entry points start unwinding; a panic raised inside a clean-up block (`unwind terminate`) terminates the process"]
        log(f"[{prop}] unwinding engine (no_std abort): {res['queries']} paths, {len(res['violations'])} violate, {len(res['inconclusive'])} inconclusive")
        return res
    try:
        mirpath, mircmd = wmm_engine.dump_mir()
    except Exception as e:
        res["inconclusive"].append({"error": str(e)})
        return res
    sys.path.insert(0, os.path.join(VERIF, "wmm"))
    import unwind
    try:
        paths, errors = unwind.run_all(open(mirpath).read())
    except Exception as e:
        paths, errors = [], [("all", f"{type(e).__name__}: {e}")]
    finally:
        for f in (mirpath, mirpath + ".err"):
            try:
                os.remove(f)
            except OSError:
                pass
    if apis:
        paths = [p for p in paths if p["api"] in apis]
        errors = [e for e in errors if e[0] in apis or e[0] == "all"]
    for api, why in errors:
        res["inconclusive"].append({"error": f"unwinding engine cannot encode {api}: {why}"})
    os.makedirs(os.path.join(REPLAYS, prop), exist_ok=True)
    samples = []
    for p in paths:
        res["queries"] += 1
        if len(p["steps"]) >= 1:
            res["nontrivial"] += 1
        if p["violation"] is None:
            if len(samples) < 3 and p["exit"] == "unwind":
                samples.append({"api": p["api"], "exit": p["exit"], "steps": p["steps"], "condition": p["pc"], "verdict": "census holds for every count"})
            continue
        desc, cval = p["violation"]
        steps = " ; ".join(p["steps"])
        m = re.search(r"callback: (\w+), then (\w+)s", steps)
        effect, outcome = (m.group(1), m.group(2)) if m else ("none", "panic" if "panics" in steps else "return")
        if p["api"] == "Arc::into_thin":
            effect = "mismatch"
        cn_override = None
        if p["api"] == "Arc::from_header_and_iter":
            mk = re.search(r"Iterator::next panics at call (\d+)", steps)
            effect = "panic_at_" + (mk.group(1) if mk else "0")
            outcome = "panic" if mk else "return"
            cn_override = p.get("n_items", 0)
        # native replay at the smallest count that satisfies the path (1 or 2)
        cn = 1 if re.search(r"\bc == 1\b|1 == c", p["pc"]) and "Not(1 == c)" not in p["pc"] and "Not(c == 1)" not in p["pc"] else 2
        if cn_override is not None:
            cn = cn_override
        nat = native_replay(p["api"], effect, outcome, cn)
        reproduced = any(r["exit"] not in (0, None, 3) for r in nat)   # 3 = the native program has no scenario for this API
        key = f"{prop}:unwind:{p['api']}:{effect}:{outcome}:{p['exit']}"
        path = os.path.join(REPLAYS, prop, "unwind-%s.json" % hashlib.sha1((key + steps).encode()).hexdigest()[:10])
        art = {"engine": "unwind", "property": prop, "key": key, "api": p["api"], "function": p["fn"], "exit": p["exit"], "steps": p["steps"],
               "path_condition": p["pc"], "violated": desc, "count_value_from_solver": cval,
               "native_replay": {"args": [p["api"], effect, outcome, cn], "runs": nat, "reproduced": reproduced},
               "repo_fingerprint": repo_fingerprint()}
        with open(path, "w") as f:
            json.dump(art, f, indent=1)
        if reproduced:
            res["violations"].append({"key": key, "scenario": f"{p['api']} [{steps}] leaves by {p['exit']}", "what": desc + f" (solver: c = {cval}; native replay with c = {cn} reproduces)", "replay": path})
        else:
            res["inconclusive"].append({"error": f"unwinding counterexample for {p['api']} [{steps}] did not reproduce natively (see {path})"})
    res["coverage"] = {
        "engine": "MIR symbolic execution with unwind edges (wmm/unwind.py), census decided by z3 over a symbolic 64-bit count",
        "mir_dump_cmd": mircmd,
        "apis": sorted(set(p["api"] for p in paths)),
        "functions_symbolically_executed": sorted(set(p["fn"] for p in paths)),
        "paths": len(paths), "paths_leaving_by_unwind": sum(1 for p in paths if p["exit"] == "unwind"),
        "iterator_summary": "honest iterator of 0, 1, 2 items whose next() may panic at every call (k = 1..calls+1); lying iterators are decided by the Kani half",
        "callback_summaries": "Clone::clone {returns, panics}; callback {no effect, keeps a clone, replaces the Arc (only &mut)} x {returns, panics}; into_thin: symbolic recorded vs real slice length",
        "samples": samples,
    }
    res["assumptions"] = [
        "Engine U: sequential; user callbacks are the nondeterministic summaries listed; payload destructors do not panic; Arc::from_raw/into_raw/as_ptr and thin_to_thick are summarised as pointer identities (their arithmetic is C11/C05's subject)",
    ]
    log(f"[{prop}] unwinding engine: {len(paths)} paths ({res['coverage']['paths_leaving_by_unwind']} by unwind), {len(res['violations'])} violate, {len(res['inconclusive'])} inconclusive, {time.time()-t0:.1f}s")
    return res


def run_abort_nostd(prop, res):
    """C16, no_std configuration: the crate-private abort() must terminate the process on every path."""
    try:
        mirpath, mircmd = wmm_engine.dump_mir(features=())
    except Exception as e:
        res["inconclusive"].append({"error": "no_std MIR dump failed: " + str(e)})
        return
    sys.path.insert(0, os.path.join(VERIF, "wmm"))
    import unwind
    try:
        exits = unwind.check_abort_nostd(open(mirpath).read())
    except Exception as e:
        res["inconclusive"].append({"error": f"unwinding engine cannot encode no_std abort(): {type(e).__name__}: {e}"})
        return
    finally:
        for f in (mirpath, mirpath + ".err"):
            try:
                os.remove(f)
            except OSError:
                pass
    res["queries"] += len(exits)
    res["nontrivial"] += len(exits)
    res["coverage"]["nostd_abort"] = {"mir_dump_cmd": mircmd, "paths": [{"ends_by": e, "steps": t} for e, t in exits],
                                      "claim": "every path through the no_std abort() ends in process termination (panic while panicking)"}
    bad = [(e, t) for e, t in exits if e != "abort"]
    if not exits:
        res["inconclusive"].append({"error": "no path through no_std abort() was found"})
    for e, t in bad:
        nat = native_nostd()
        reproduced = any(r["exit"] == 1 and "SURVIVED" in r["output"] for r in nat)
        key = f"{prop}:unwind:abort_nostd:{e}"
        os.makedirs(os.path.join(REPLAYS, prop), exist_ok=True)
        path = os.path.join(REPLAYS, prop, "unwind-abort-nostd.json")
        with open(path, "w") as f:
            json.dump({"engine": "unwind", "property": prop, "key": key, "api": "abort (no_std)", "exit": e, "steps": t,
                       "native_replay": {"args": ["abort_nostd"], "runs": nat, "reproduced": reproduced},
                       "repo_fingerprint": repo_fingerprint()}, f, indent=1)
        if reproduced:
            res["violations"].append({"key": key, "scenario": f"no_std abort() [{' ; '.join(t)}] leaves by {e}",
                                      "what": "the overflow guard does not terminate the process in the no_std build: the panic is catchable (native replay: the process survived a clone past the limit)", "replay": path})
        else:
            res["inconclusive"].append({"error": f"no_std abort() leaves by {e} in the model but the native run was killed as required (see {path})"})


def run_overflow_path(prop, res):
    """C16, std build: past the limit Arc::clone may only end by terminating the process."""
    try:
        mirpath, mircmd = wmm_engine.dump_mir()
    except Exception as e:
        res["inconclusive"].append({"error": "MIR dump failed: " + str(e)})
        return
    sys.path.insert(0, os.path.join(VERIF, "wmm"))
    import unwind
    try:
        exits = unwind.check_overflow_path(open(mirpath).read())
    except Exception as e:
        res["inconclusive"].append({"error": f"unwinding engine cannot encode the overflow path of Arc::clone: {type(e).__name__}: {e}"})
        return
    finally:
        for f in (mirpath, mirpath + ".err"):
            try:
                os.remove(f)
            except OSError:
                pass
    res["queries"] += len(exits)
    res["nontrivial"] += len(exits)
    res["coverage"]["overflow_path"] = {"mir_dump_cmd": mircmd, "paths": exits,
                                        "claim": "from every count above isize::MAX, Arc::clone ends only by process termination; nothing that can panic or return runs between the overflow test and the abort"}
    if not exits:
        res["inconclusive"].append({"error": "no path through Arc::clone above the limit was found"})
    bad = [e for e in exits if e["ends_by"] != "abort"]
    if bad:
        nat = native_replay("Arc::clone_overflow", "none", "panic", 1)
        reproduced = any(r["exit"] not in (0, None, 3) for r in nat)
        e = bad[0]
        key = f"{prop}:unwind:overflow_path:{e['ends_by']}"
        os.makedirs(os.path.join(REPLAYS, prop), exist_ok=True)
        path = os.path.join(REPLAYS, prop, "unwind-overflow-path.json")
        with open(path, "w") as f:
            json.dump({"engine": "unwind", "property": prop, "key": key, "api": "Arc::clone_overflow", "paths": bad,
                       "native_replay": {"args": ["Arc::clone_overflow", "none", "panic", 1], "runs": nat, "reproduced": reproduced},
                       "repo_fingerprint": repo_fingerprint()}, f, indent=1)
        if reproduced:
            res["violations"].append({"key": key, "scenario": f"Arc::clone from count {e['count']} [{' ; '.join(e['steps'])}] leaves by {e['ends_by']}",
                                      "what": "past the limit the clone can end by a catchable panic instead of terminating the process (native replay with an unwritable stderr: the process survived)", "replay": path})
        else:
            res["inconclusive"].append({"error": f"overflow path of Arc::clone can leave by {e['ends_by']} in the model ({' ; '.join(e['steps'])}) but the native run was killed as required (see {path})"})


def native_nostd():
    env = dict(os.environ, CARGO_NET_OFFLINE="true", CARGO_TARGET_DIR=os.path.join(TARGET, "native"))
    env.pop("RUSTFLAGS", None)
    crate = os.path.join(VERIF, "native_nostd")
    if REPO != "/repo":
        import shutil
        c2 = os.path.join(WORK, "native-nostd-copy")
        shutil.rmtree(c2, ignore_errors=True)
        shutil.copytree(crate, c2)
        t = open(os.path.join(c2, "Cargo.toml")).read().replace('path = "/repo"', f'path = "{REPO}"')
        open(os.path.join(c2, "Cargo.toml"), "w").write(t)
        crate = c2
    out = []
    for prof in ([], ["--release"]):
        b = subprocess.run(["cargo", "build", "--offline", "-q"] + prof, cwd=crate, env=env, capture_output=True, text=True)
        if b.returncode != 0:
            out.append({"profile": "release" if prof else "dev", "exit": None, "output": b.stderr[-300:]})
            continue
        exe = os.path.join(env["CARGO_TARGET_DIR"], "release" if prof else "debug", "native_nostd")
        r = subprocess.run([exe], capture_output=True, text=True)
        out.append({"profile": "release" if prof else "dev", "exit": r.returncode, "output": (r.stdout + r.stderr)[-200:].strip()})
    return out


def replay(prop, art):
    if art.get("api") == "abort (no_std)":
        nat = native_nostd()
        rep = any(r["exit"] == 1 and "SURVIVED" in r["output"] for r in nat)
        log(f"[{prop}] native replay (no_std clone past the limit): " + "; ".join(f"{r['profile']}: exit {r['exit']} {r['output'][-80:]}" for r in nat))
        if rep:
            log(f"VIOLATION property={prop} replay={art.get('how_to_replay', '')}")
            return EXIT_VIOLATION
        return EXIT_OK
    a = art["native_replay"]["args"]
    nat = native_replay(*a)
    rep = any(r["exit"] not in (0, None, 3) for r in nat)
    log(f"[{prop}] native replay {a}: " + "; ".join(f"{r['profile']}: exit {r['exit']} {r['output'][-120:]}" for r in nat))
    if rep:
        log(f"VIOLATION property={prop} replay={art.get('how_to_replay', '')}")
        return EXIT_VIOLATION
    return EXIT_OK
