"""Shared helpers for the /verif driver: paths, evidence writing, known findings."""
import json, os, sys, time, re, hashlib

VERIF = os.path.dirname(os.path.dirname(os.path.abspath(__file__)))
REPO = os.environ.get("VERIF_REPO", "/repo")
WORK = os.path.join(VERIF, "work")
TARGET = os.path.join(VERIF, "target")
EVID = os.path.join(VERIF, "evidence")
REPLAYS = os.path.join(VERIF, "replays")
GUARD_CFG = "--cfg triomphe_verif"

EXIT_OK, EXIT_VIOLATION, EXIT_INCONCLUSIVE = 0, 1, 2


def seed():
    try:
        return int(os.environ.get("VERIF_SEED", "0"))
    except ValueError:
        return 0


def ensure_dirs():
    for d in (WORK, TARGET, EVID, REPLAYS):
        os.makedirs(d, exist_ok=True)


def repo_fingerprint():
    """sha256 over the repo sources the checks are rebuilt from (reported in the evidence)."""
    h = hashlib.sha256()
    src = os.path.join(REPO, "src")
    for fn in sorted(os.listdir(src)):
        p = os.path.join(src, fn)
        if os.path.isfile(p):
            h.update(fn.encode())
            with open(p, "rb") as f:
                h.update(f.read())
    with open(os.path.join(REPO, "Cargo.toml"), "rb") as f:
        h.update(f.read())
    return h.hexdigest()[:16]


def load_known_findings():
    p = os.path.join(VERIF, "known_findings.json")
    if not os.path.exists(p):
        return []
    with open(p) as f:
        return json.load(f).get("findings", [])


def known_open(prop, key):
    """Return the open known-finding entry whose key equals `key` for `prop`, else None.
    `fixed` entries suppress nothing."""
    for e in load_known_findings():
        if e.get("property") == prop and e.get("status") == "open" and e.get("key") == key:
            return e
    return None


def write_evidence(prop, tier, level, coverage, assumptions, wall_s, violations):
    ensure_dirs()
    ev = {
        "property_id": prop,
        "tier": tier,
        "seed": seed(),
        "level": level,
        "coverage": coverage,
        "assumptions": assumptions,
        "wall_s": round(wall_s, 2),
        "violations": violations,
    }
    p = os.path.join(EVID, prop + ".json")
    tmp = p + ".tmp"
    with open(tmp, "w") as f:
        json.dump(ev, f, indent=1, sort_keys=False)
        f.write("\n")
    os.replace(tmp, p)
    return p


def log(*a):
    print(*a, flush=True)
