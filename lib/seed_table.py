#!/usr/bin/env python3
"""Development aid: turn bin/seedtest output (one line per seeded change and property) into the markdown table of
DESIGN.md 10.x and record the outcome in seeded/<id>/meta.json.  usage: seed_table.py <seedtest-log> [round ...]"""
import json, os, re, sys
V = os.path.dirname(os.path.dirname(os.path.abspath(__file__)))
rows = {}
for l in open(sys.argv[1]):
    m = re.match(r'^(C\d+-\d+) (C\d+) exit=(\d+) violations=(\d+) (?:how=\[(.*)\])?', l)
    if m:
        rows.setdefault(m.group(1), []).append((m.group(2), int(m.group(3)), int(m.group(4)), (m.group(5) or '').strip()))
rounds = set(int(r) for r in sys.argv[2:])
print('| seed | change | reported by | how (first reports) |')
print('|------|--------|-------------|-----|')
for sid in sorted(rows, key=lambda s: (s.split('-')[0], int(s.split('-')[1]))):
    mp = os.path.join(V, 'seeded', sid, 'meta.json')
    meta = json.load(open(mp))
    if rounds and meta.get('round', 0) not in rounds:
        continue
    det = [(p, rc, nv, how) for p, rc, nv, how in rows[sid] if rc == 1 and nv > 0]
    by = ' / '.join(p for p, *_ in det) or '-'
    how = '; '.join(h for *_, h in det)[:230] if det else (('NOT REPORTED (outside the property as stated): ' + meta['out_of_scope'][:160]) if meta.get('out_of_scope') else 'NOT DETECTED' + (': ' + meta['not_detected_reason'][:180] if meta.get('not_detected_reason') else ''))
    how = how.replace('|', '/')
    print(f"| {sid} | {meta.get('summary','')[:110].replace('|','/')} | {by} | {how} |")
    meta['detected_by'] = [p for p, *_ in det]
    meta['detection'] = [{'check': p, 'exit': rc, 'violations': nv, 'how': how_} for p, rc, nv, how_ in rows[sid]]
    json.dump(meta, open(mp, 'w'), indent=1)
