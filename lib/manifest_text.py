HOOK_COMMITS = ["43daa92"]
ENGINES = [
    {"name": "K", "path": "/verif/kani", "serves_properties": [],
     "kind_free_text": "Kani 0.68 / CBMC 6.11 bounded model checking of the compiled MIR of triomphe, monomorphised at harness-chosen instantiations; SAT back end CaDiCaL"},
    {"name": "W", "path": "/verif/wmm", "serves_properties": [],
     "kind_free_text": "MIR dump -> symbolic execution -> event templates -> RC11 axiomatic encoding decided by z3 (cvc5 cross-check)"},
]
NOTES = "All checks regenerate their encoding from /repo's working tree on each run. exit 2 = inconclusive (never reported as held)."
NOT_APPLICABLE = {
    "C13": "Send/Sync bounds and borrow lifetimes are judgments of rustc's trait solver and borrow checker about programs that must not compile; there is no run-time code of triomphe to execute symbolically and nothing for an SMT solver to range over (DESIGN.md C13).",
}
K_NOTE = ("Trusted: rustc (Kani's pinned nightly front end), Kani's MIR->goto translation and intrinsic/allocator models, CBMC + CaDiCaL, "
          "the stubs listed in the evidence file, the harness-side reference model. Sequential only; panics end the path (no unwinding); "
          "one monomorphic instantiation per harness; bounds as listed in the evidence file.")
CHECKS = {
    "C16": {
        "engine": "K", "design_ref": "6/C16",
        "technique": "bounded model checking with Kani/CBMC (SAT): symbolic 64-bit starting count through every clone entry point, abort stubbed",
        "level": "For each clone entry point (Arc sized/slice/dyn, ThinArc, OffsetArc::clone/clone_arc, ArcBorrow::clone_arc, ArcUnion both variants, clones made inside with_arc / with_raw_offset_arc) the solver shows for every 64-bit starting count: the clone returns only when the count was at most isize::MAX and then adds exactly one; abort is reached only at or above the limit; no panic. Not bounded in the count; per listed instantiation.",
        "note": K_NOTE + " std::process::abort is replaced by a stub that records the call and ends the path; that the real abort terminates the process is trusted.",
    },
}
