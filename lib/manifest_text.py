HOOK_COMMITS = ["43daa92"]
FIX_COMMITS = ["ffd00ac", "4c348a4"]
ENGINES = [
    {"name": "K", "path": "/verif/kani", "serves_properties": [],
     "kind_free_text": "Kani 0.68 / CBMC 6.11 bounded model checking of the compiled MIR of triomphe, monomorphised at harness-chosen instantiations; SAT back end CaDiCaL"},
    {"name": "W", "path": "/verif/wmm", "serves_properties": [],
     "kind_free_text": "MIR dump -> symbolic execution -> event templates -> RC11 axiomatic encoding decided by z3 (cvc5 cross-check)"},
]
NOTES = "All checks regenerate their encoding from /repo's working tree on each run. exit 2 = inconclusive (never reported as held)."
NOT_APPLICABLE = {
    "C13": "Send/Sync bounds and borrow lifetimes are judgments of rustc's trait solver and borrow checker about programs that must not compile; there is no run-time code of triomphe to execute symbolically and nothing for an SMT solver to range over (DESIGN.md C13).",
}
K_NOTE = ("Trusted: rustc (Kani's pinned nightly front end), Kani's MIR->goto translation and intrinsic/allocator models, CBMC + CaDiCaL, "
          "the stubs listed in the evidence file, the harness-side reference model. Sequential only; panics end the path (no unwinding); "
          "one monomorphic instantiation per harness; bounds as listed in the evidence file.")
W_NOTE = ("Weak-memory half: the orderings and the event structure are re-extracted from the nightly MIR dump of /repo on every run "
          "(release-like profile); RC11 axioms (SeqCst treated as AcqRel, sb U rf acyclic); hand models of ~25 std functions in wmm/mirsym.py; "
          "bounded scenarios only; counterexamples are confirmed by cvc5 and an independent witness checker, not by a native run "
          "(x86 cannot exhibit them).")
def K(design_ref, technique, level, note_extra=""):
    return {"engine": "K", "design_ref": design_ref, "technique": technique, "level": level, "note": K_NOTE + (" " + note_extra if note_extra else "")}
def KW(design_ref, technique, level, note_extra=""):
    return {"engine": "K+W", "design_ref": design_ref, "technique": technique, "level": level, "note": K_NOTE + " " + W_NOTE + (" " + note_extra if note_extra else "")}
CHECKS = {
    "C01": K("6/C01", "bounded model checking with Kani/CBMC (SAT): inductive one-operation step from an arbitrary valid state (symbolic 64-bit count), ghost allocator log and drop ledger",
             "For every handle kind (Arc, OffsetArc, ArcUnion either arm, ThinArc, raw pointers, arc-swap pointers) and listed payload (sized Drop-tracked, over-aligned, header+slice, slice, str, dyn) the solver shows: from ANY count value, one clone / release / conversion / clone-then-two-releases changes the count by exactly the number of owners created or released, keeps the payload readable while owners remain, runs each destructor exactly once and returns the block exactly once (with its logged layout) exactly when the last owner goes. By induction on history length this covers every finite sequential history for the listed instantiations; slice lengths 0..3 enumerated."),
    "C02": {"engine": "W", "design_ref": "5, 6/C02",
            "technique": "symbolic execution of the MIR of clone/drop/count into event templates + RC11 axiomatic weak-memory encoding decided by z3 (SMT), cvc5 cross-check of counterexamples",
            "level": "For each bounded scenario (2-3 threads quick, up to 4 thorough; programs over read/clone/drop incl. a handle passed to a spawned thread) one SMT query ranges over every reads-from map and modification order RC11 allows: UNSAT shows that in every execution each access to count or payload happens-before the release of the memory, no payload race exists, and exactly one destroy happens. The orderings come from the current MIR, so a weakened ordering is seen on the next run.",
            "note": W_NOTE + " Other handle kinds are tied to Arc's clone/drop by a scan of every counter access in the MIR dump (an access outside the encoded functions makes the check inconclusive, exit 2)."},
    "C03": KW("6/C03", "Kani/CBMC bounded model checking of every uniqueness-gated API from a symbolic count + RC11 SMT queries for the ordering of the granted write",
              "Sequential half: for every 64-bit count value each gate (get_mut, get_unique, is_unique, try_unique, TryFrom, make_mut/make_unique in-place branch, deprecated write/as_mut_slice, the same through ThinArc::with_arc_mut) grants exactly when the count is one, and on decline the handle, count and payload are unchanged. Schedule half: in every RC11 execution of the bounded scenarios (poller thread vs readers/droppers) a granted write is ordered after every other thread's accesses."),
    "C04": K("6/C04", "bounded model checking with Kani/CBMC (SAT): every count accessor from an arbitrary valid state, also inside borrow callbacks",
             "From ANY count value c (= number of owners by the C01 induction) every accessor of every kind reports c; c+1 after one clone; c after a release of that clone; borrow_arc / with_arc / with_raw_offset_arc / with_arc_mut, comparisons, hashing, formatting, Deref, as_ptr and moves leave it at c, also when read inside the callback."),
    "C05": K("6/C05", "bounded model checking with Kani/CBMC (SAT) with a logging allocator stub; layout arithmetic decided for a fully symbolic 64-bit slice length",
             "For each cell of the shape matrix and each constructor the requested (size, align) equals the repr(C) reference, the payload sits at its reference offset and fits, and every release path returns exactly that block with exactly that size and alignment, once. Layout-only harnesses make the slice length a free 64-bit value: the request equals a u128 reference for every length or the only other outcome is the library's overflow panic."),
    "C06": K("6/C06", "bounded model checking with Kani/CBMC (SAT): constructor result vs element-wise reference with identity-tracked elements and allocator log",
             "For lengths 0..3, symbolic element values, Vec slack 0/1 and every honest size_hint regime, each constructor yields exactly the input contents in order, destroys nothing during construction, each input element is destroyed exactly once by the result, and the source container's storage is released; zero-sized elements are refused by a panic or delivered correctly."),
    "C07": K("6/C07", "bounded model checking with Kani/CBMC (SAT): lying iterators over all (reported, actual) pairs, injected allocation failure, state asserted at callback entry",
             "Lying iterators (reported/actual in 0..3, hints changing between calls) lead to the right value or a library panic, never an out-of-bounds write, a drop of an unwritten slot or a handle of the wrong length; a failed allocation always ends in handle_alloc_error; at the entry of user Clone code inside make_mut/make_unique/unwrap_or_clone/OffsetArc::make_mut the count, the caller's handle and the ledger are unchanged for every count. What happens after a panic starts to unwind is NOT modelled by Kani and is outside this claim.",
             "Unwinding clean-up (DropGuard write-back, ManuallyDrop parking, leak of the half-built block, counts after catch_unwind) is outside the claim."),
    "C08": KW("6/C08", "Kani/CBMC bounded model checking of make_mut/make_unique/OffsetArc::make_mut from a symbolic count + RC11 SMT queries for the write's ordering",
              "Sequential half: for every count value, a sole owner keeps its allocation and is not cloned; otherwise exactly one Clone call, a fresh sole-owned block, the old block loses exactly one owner and keeps its value (also observed through a co-owner of each other kind and for a zero-sized payload). Schedule half: in every RC11 execution of the bounded scenarios the in-place write is ordered after the accesses of owners that have released."),
    "C09": KW("6/C09", "Kani/CBMC bounded model checking of try_unwrap/try_unique/into_inner/unwrap_or_clone/TryFrom from a symbolic count + RC11 SMT queries for racing unwrappers",
              "Sequential half: for every count value the value is moved out (undestroyed, block released once with its layout) exactly when the count is one; otherwise the same handle comes back with the count unchanged (unwrap_or_clone: one clone, one owner released). Schedule half: in every RC11 execution of threads racing try_unwrap / unwrap_or_clone / try_unique / drop the value is moved out or destroyed exactly once."),
    "C10": K("6/C10", "bounded model checking with Kani/CBMC (SAT): thin vs fat views, symbolic recorded length for into_thin, with_arc_mut callbacks",
             "For the listed (H,T) cells and lengths 0..3: recorded length = slice length for every safe way to obtain a ThinArc; thin deref, with_arc and the protected form expose the same header/elements at the same addresses as the fat Arc; thin<->fat conversions keep allocation and count; into_thin refuses every mismatching recorded length (64-bit symbolic); with_arc_mut that mutates / clones / replaces the Arc leaves the ThinArc consistent and the old allocation with exactly one owner fewer.",
             "The state after the into_thin panic and after a panicking with_arc_mut callback is unwinding behaviour and outside the claim."),
    "C11": K("6/C11", "bounded model checking with Kani/CBMC (SAT) over the shape matrix: pointer identities, round trips with a symbolic count, size_of facts",
             "For each shape: as_ptr = into_raw = Deref address, stable across clone and move; heap_ptr = logged block; from_raw / from_raw_slice / from_raw_offset / ArcBorrow::from_ptr / dyn cast / arc-swap glue recover the same block, contents and (symbolic) count; OffsetArc and ArcBorrow bit patterns are the value's address; every handle is one word (two for slice/dyn) with the null niche.",
             "ThinArc's opaque pointer is checked to be the block address (DESIGN C11). Address of an Arc<dyn> over payloads aligned above 8 is outside (Kani mis-models the dyn tail offset; natively correct)."),
    "C12": K("6/C12", "bounded model checking with Kani/CBMC (SAT) over ordered payload pairs with a symbolic count",
             "For each listed ordered pair and both constructors: every accessor reports the variant, the borrow exposes the original address, clone/drop move the right allocation's count by one and use the right destructor and logged layout at count one; one word wide with niche; unions of different variants never compare equal (also for equal values and the same allocation)."),
    "C14": K("6/C14", "bounded model checking with Kani/CBMC (SAT): every comparison operator, recording Hasher and recording formatter on symbolic values",
             "For all values of the listed domains (all u8 / f32 bit patterns incl. NaN, slices and strs of length 0..2, symbolic recorded lengths) and same-or-distinct allocations: == != < <= > >= partial_cmp cmp on handles equal those on the values (same-allocation equality excepted), are mutually consistent, equal handles feed a Hasher identically to the value, Debug/Display invoke the payload's impl exactly once on the payload with flags and result forwarded, Borrow/AsRef return the payload."),
    "C15": K("6/C15", "bounded model checking with Kani/CBMC (SAT): symbolic subset of slots written, drop vs assume_init, deprecated writers under a symbolic count",
             "For lengths 0..3 and every subset of written slots: dropping before assume_init runs no element destructor and exactly one header destructor and frees the block with its layout; assume_init* keeps allocation, contents and count and afterwards every element is destroyed exactly once; the deprecated writers return only for a sole owner (any 64-bit count)."),
    "C17": K("6/C17", "bounded model checking with Kani/CBMC (SAT): parametric payload/serializer with symbolic results",
             "Serialising Arc<P>/UniqueArc<P> invokes P's impl exactly once on the payload with the same serializer and forwards the result (Ok and Err, symbolic token); deserialising yields a sole owner of the value P's deserialiser produced in exactly one allocation, or passes the error through with no allocation left; also for a zero-sized payload. Parametric in P and the serializer, so per instantiation run."),
    "C16": {
        "engine": "K", "design_ref": "6/C16",
        "technique": "bounded model checking with Kani/CBMC (SAT): symbolic 64-bit starting count through every clone entry point, abort stubbed",
        "level": "For each clone entry point (Arc sized/slice/dyn, ThinArc, OffsetArc::clone/clone_arc, ArcBorrow::clone_arc, ArcUnion both variants, clones made inside with_arc / with_raw_offset_arc) the solver shows for every 64-bit starting count: the clone returns only when the count was at most isize::MAX and then adds exactly one; abort is reached only at or above the limit; no panic. Not bounded in the count; per listed instantiation.",
        "note": K_NOTE + " std::process::abort is replaced by a stub that records the call and ends the path; that the real abort terminates the process is trusted.",
    },
}
