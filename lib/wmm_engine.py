"""Engine W driver: MIR dump of /repo's current sources -> event templates -> bounded scenarios ->
RC11 queries (z3), counterexamples cross-checked by cvc5 and by a solver-free witness checker."""
import itertools, json, os, re, shutil, subprocess, sys, time, hashlib
from multiprocessing import Pool
from common import *

WMM = os.path.join(VERIF, "wmm")
MIRDIR = os.path.join(TARGET, "mir")
VT = shutil.which("python3-vt") or "/usr/local/bin/python3-vt"

# functions in which a direct access to the counter is expected (they are the ones encoded)
ENCODED_SITES = {("clone", "fetch_add"), ("strong_count", "load"), ("count", "load"), ("drop_inner", "fetch_sub"),
                 ("drop_inner", "load"), ("drop_inner", "fence")}
CONSTRUCTOR_NEW = {"new", "try_allocate_for_layout", "new_uninit"}


def dump_mir(features=("--features", "std")):
    """Fresh MIR dump of /repo's working tree (release-like: debug assertions and overflow checks off)."""
    os.makedirs(MIRDIR, exist_ok=True)
    tdir = os.path.join(MIRDIR, "t-%d" % os.getpid())
    shutil.rmtree(tdir, ignore_errors=True)
    out = os.path.join(MIRDIR, "triomphe-%d.mir" % os.getpid())
    env = dict(os.environ, CARGO_TARGET_DIR=tdir, CARGO_NET_OFFLINE="true")
    env.pop("RUSTFLAGS", None)
    cmd = ["cargo", "+nightly", "rustc", "--offline", "--lib", "--no-default-features"] + list(features) + ["--",
           "-Zunpretty=mir", "-Zmir-include-spans=off", "-C", "debug-assertions=off", "-C", "overflow-checks=off"]
    with open(out, "w") as f, open(out + ".err", "w") as ef:
        p = subprocess.run(cmd, cwd=REPO, env=env, stdout=f, stderr=ef)
    shutil.rmtree(tdir, ignore_errors=True)
    if p.returncode != 0 or os.path.getsize(out) < 1000:
        raise RuntimeError("MIR dump failed: " + open(out + ".err").read()[-400:])
    return out, " ".join(cmd)


# ---------------------------------------------------------------------------- scenario families
RD = ["read", "drop"]


def uniq(scs):
    seen, out = set(), []
    for name, threads, spawned, joins in scs:
        key = (tuple(sorted(tuple(t) for i, t in enumerate(threads) if i not in spawned)),
               tuple(sorted((tuple(threads[c]), tuple(threads[p]), at) for c, (p, at) in spawned.items())),
               tuple(sorted((c, p, at) for c, (p, at) in joins.items())))
        if key in seen:
            continue
        seen.add(key)
        out.append((name, threads, spawned, joins))
    return out


def family(prop, tier):
    S = []
    add = lambda name, threads, spawned=None, joins=None: S.append((name, [list(t) for t in threads], spawned or {}, joins or {}))
    if prop == "C02":
        progs = [["drop"], RD, ["clone", "read", "drop", "drop"], ["clone", "drop", "read", "drop"], ["read", "clone", "drop", "drop"]]
        for a, b in itertools.combinations_with_replacement(range(len(progs)), 2):
            add(f"2t:{a}{b}", [progs[a], progs[b]])
        add("spawn", [["clone", "give", "read", "drop"], RD], {1: (0, 0)})
        add("spawn2", [["clone", "give", "clone", "give", "read", "drop"], RD, ["drop"]], {1: (0, 0), 2: (0, 2)})
        # scoped threads that use the parent's handle by reference and are joined before it is released
        add("scoped clone", [["clone", "drop", "drop"], ["bclone", "drop"]], {1: (0, -1)}, {1: (0, 1)})
        add("scoped clone+read", [["read", "clone", "read", "drop", "drop"], ["bread", "bclone", "read", "drop"]], {1: (0, -1)}, {1: (0, 3)})
        add("2 scoped cloners", [["read", "drop"], ["bclone", "drop"], ["bclone", "read", "drop"]], {1: (0, -1), 2: (0, -1)}, {1: (0, 1), 2: (0, 1)})
        for a, b, c in [(1, 1, 1), (0, 1, 2), (1, 1, 2), (0, 0, 1), (1, 2, 3)]:
            add(f"3t:{a}{b}{c}", [progs[a], progs[b], progs[c]])
        # "convert" programs: a handle is released through the uniqueness-gated unwrapping paths, which free
        # the memory without going through drop
        conv = [["read", "try_unwrap"], ["read", "unwrap_or_clone"], ["try_unique_drop"]]
        for x in conv:
            for y in (RD, ["clone", "read", "drop", "drop"], x):
                add("conv", [x, y])
        add("conv3", [conv[0], RD, RD])
        # copy-on-write releases a reference too (the old allocation loses this owner without a plain drop)
        for y in (RD, ["drop"], ["clone", "read", "drop", "drop"]):
            add("cow", [["make_mut_write", "read", "drop"], y])
        add("cow3", [["read", "make_mut_write", "drop"], RD, RD])
        if tier == "thorough":
            progs += [["read", "read", "drop"], ["count", "read", "drop"], ["clone", "clone", "drop", "read", "drop", "drop"],
                      ["clone", "read", "drop", "clone", "read", "drop", "drop"]]
            for a, b in itertools.combinations_with_replacement(range(len(progs)), 2):
                add(f"2t:{a}{b}", [progs[a], progs[b]])
            for c in itertools.combinations_with_replacement(range(7), 3):
                add("3t:" + "".join(map(str, c)), [progs[i] for i in c])
            for c in itertools.combinations_with_replacement(range(4), 4):
                if sum(len(progs[i]) for i in c) <= 13:   # larger ones (40+ events) do not finish in 10 min
                    add("4t:" + "".join(map(str, c)), [progs[i] for i in c])
            add("spawn-chain", [["clone", "give", "read", "drop"], ["clone", "give", "read", "drop"], RD], {1: (0, 0), 2: (1, 0)})
            add("spawn3", [["clone", "give", "clone", "give", "clone", "give", "drop"], RD, RD, ["clone", "read", "drop", "drop"]],
                {1: (0, 0), 2: (0, 2), 3: (0, 4)})
            for x in conv:
                for y, z in itertools.combinations_with_replacement([RD, ["drop"], ["clone", "read", "drop", "drop"], conv[0], conv[1]], 2):
                    add("conv3", [x, y, z])
            add("conv4", [conv[0], conv[1], RD, RD])
            add("3 scoped cloners", [["read", "drop"], ["bclone", "drop"], ["bclone", "read", "drop"], ["bread", "bclone", "drop"]],
                {1: (0, -1), 2: (0, -1), 3: (0, -1)}, {1: (0, 1), 2: (0, 1), 3: (0, 1)})
            add("scoped + owner clone", [["clone", "read", "drop", "drop"], ["bclone", "read", "drop"], RD], {1: (0, -1)}, {1: (0, 2)})
    elif prop == "C03":
        owner = [["get_mut_write", "drop"], ["get_mut_write", "get_mut_write", "drop"], ["read", "get_mut_write", "drop"]]
        others = [RD, ["drop"], ["clone", "read", "drop", "drop"]]
        for o in owner:
            for x in others:
                add("2t", [o, x])
        add("3t", [owner[1], RD, RD])
        add("3t-b", [owner[0], RD, ["clone", "read", "drop", "drop"]])
        add("2 pollers", [owner[0], owner[0]])
        add("scoped cloners then write", [["read", "get_mut_write", "drop"], ["bclone", "drop"], ["bclone", "read", "drop"]],
            {1: (0, -1), 2: (0, -1)}, {1: (0, 1), 2: (0, 1)})
        if tier == "thorough":
            for o in owner:
                for x, y in itertools.combinations_with_replacement(others, 2):
                    add("3t", [o, x, y])
            add("3 pollers", [owner[0], owner[0], owner[2]])
            add("4t", [owner[1], RD, RD, ["drop"]])
            add("poll3", [["get_mut_write", "get_mut_write", "get_mut_write", "drop"], RD])
            add("4t-b", [owner[2], RD, ["clone", "read", "drop", "drop"], ["drop"]])
            add("4 pollers", [owner[0], owner[0], owner[0], owner[0]])
            add("poll vs convert", [owner[1], ["read", "try_unwrap"], ["read", "unwrap_or_clone"]])
    elif prop == "C08":
        owner = [["make_mut_write", "read", "drop"], ["read", "make_mut_write", "drop"], ["make_mut_write", "make_mut_write", "drop"]]
        others = [RD, ["drop"], ["clone", "read", "drop", "drop"]]
        for o in owner:
            for x in others:
                add("2t", [o, x])
        add("3t", [owner[0], RD, RD])
        add("2 writers", [owner[0], owner[0]])
        add("scoped cloners then write", [["read", "make_mut_write", "drop"], ["bclone", "drop"], ["bclone", "read", "drop"]],
            {1: (0, -1), 2: (0, -1)}, {1: (0, 1), 2: (0, 1)})
        if tier == "thorough":
            for o in owner:
                for x, y in itertools.combinations_with_replacement(others, 2):
                    add("3t", [o, x, y])
            add("3 writers", [owner[0], owner[0], owner[1]])
            add("4t", [owner[0], RD, RD, ["drop"]])
            add("4 writers", [owner[0], owner[0], owner[1], owner[2]])
            add("writer vs convert", [owner[0], ["read", "try_unwrap"], ["get_mut_write", "drop"]])
    elif prop == "C09":
        ops = [["try_unwrap"], ["unwrap_or_clone"], ["try_unique_drop"], ["drop"], ["read", "try_unwrap"], ["read", "unwrap_or_clone"], RD]
        for a, b in itertools.combinations_with_replacement(range(len(ops)), 2):
            add(f"2t:{a}{b}", [ops[a], ops[b]])
        for c in [(0, 0, 0), (0, 1, 2), (4, 5, 6), (0, 3, 3), (1, 1, 6)]:
            add("3t:" + "".join(map(str, c)), [ops[i] for i in c])
        # two scoped threads clone through the parent's (sole) handle at the same time and drop their clones; they are
        # joined before the parent unwraps: no increment may be lost, the parent's value is still there and is handed out
        for last in ("try_unwrap", "unwrap_or_clone"):
            add("scoped cloners then " + last, [["read", last], ["bclone", "drop"], ["bclone", "read", "drop"]],
                {1: (0, -1), 2: (0, -1)}, {1: (0, 1), 2: (0, 1)})
        if tier == "thorough":
            for c in itertools.combinations_with_replacement(range(len(ops)), 3):
                add("3t:" + "".join(map(str, c)), [ops[i] for i in c])
            add("4t", [ops[0], ops[0], ops[1], ops[3]])
            add("4t-b", [ops[4], ops[5], ops[2], ops[6]])
            add("4 unwrappers", [ops[0], ops[0], ops[0], ops[0]])
            add("clone then unwrap", [["clone", "drop", "try_unwrap"], ["read", "unwrap_or_clone"], ops[2]])
    return uniq(S)


# ---------------------------------------------------------------------------- worker
_T = {}


def _init(mirpath):
    sys.path.insert(0, WMM)
    import mirsym
    _T["templates"], _T["sites"] = mirsym.extract(open(mirpath).read())


def _one(args):
    idx, name, threads, spawned, joins, timeout_ms = args
    sys.path.insert(0, WMM)
    import rc11
    t0 = time.time()
    try:
        sc = rc11.Scenario(_T["templates"], threads, spawned, name, joins)
        for th, branches in sc.final:
            for g, h in branches:
                if h != 0:
                    return {"idx": idx, "verdict": "unknown", "why": f"scenario thread {th} does not release all its handles", "secs": 0, "events": len(sc.evs)}
        r = rc11.decide(sc, timeout_ms)
    except Exception as e:  # Unsupported or anything else: inconclusive, never "holds"
        return {"idx": idx, "verdict": "unknown", "why": f"{type(e).__name__}: {e}", "secs": time.time() - t0, "events": 0}
    out = {"idx": idx, "verdict": r["verdict"], "secs": round(r["secs"], 2), "events": r.get("events", len(sc.evs)),
           "queries": r.get("queries", 1), "why": r.get("why"), "violated": r.get("violated")}
    if r["verdict"] == "violation":
        ok, why = rc11.check_witness(r["witness"])
        out["witness"] = r["witness"]
        out["witness_check"] = [ok, why]
        out["smt2"] = r["smt2"]
    return out


def cvc5_agrees(smt2, workdir, tag):
    p = os.path.join(workdir, tag + ".smt2")
    with open(p, "w") as f:
        f.write("(set-logic ALL)\n" + smt2)
    try:
        r = subprocess.run(["cvc5", "--lang", "smt2", "--tlimit=60000", p], capture_output=True, text=True, timeout=90)
    except Exception as e:
        return None, str(e)
    out = (r.stdout + r.stderr).strip()
    if "(error" in out:
        return None, out[:200]
    return (out.split("\n")[0].strip() == "sat"), out[:80]


def render(w, threads):
    lines = []
    for e in w["events"]:
        v = ""
        if "rval" in e:
            v += f" read={e['rval']}"
        if "wval" in e:
            v += f" wrote={e['wval']}"
        lines.append(f"e{e['id']:<3} T{e['thread']} {e['kind']:<5} {e['loc'] or '':<5} {e['ord']:<6} {e['label']}{v}")
    lines.append("rf: " + ", ".join(f"e{a}->e{b}" for a, b in w["rf"]))
    lines.append("mo: " + " < ".join(f"e{a}" for a in w["mo"]))
    for q, d in w["violated"]:
        lines.append(f"VIOLATED {q}: {d}")
    return lines


SECOND_FEATURE = "unstable_dropck_eyepatch"   # selects a different `Drop for Arc` impl (#[may_dangle]); nightly only


def run(prop, tier, spec):
    """default feature set, then - when the crate has it - the configuration that compiles the other Drop impl"""
    res = _run_cfg(prop, tier, spec, ("--features", "std"), "", None)
    try:
        has = re.search(r"^%s\s*=" % SECOND_FEATURE, open(os.path.join(REPO, "Cargo.toml")).read(), re.M) is not None
    except OSError:
        has = False
    if has:
        r2 = _run_cfg(prop, tier, spec, ("--features", "std " + SECOND_FEATURE), SECOND_FEATURE, 12 if tier == "quick" else 60)
        res["violations"] += r2["violations"]
        res["inconclusive"] += r2["inconclusive"]
        res["queries"] += r2["queries"]
        res["nontrivial"] += r2["nontrivial"]
        res["coverage"]["configuration_" + SECOND_FEATURE] = {k: r2["coverage"].get(k) for k in
            ("mir_dump_cmd", "functions_symbolically_executed", "scenarios", "scenarios_hold", "solver_seconds", "templates")}
    return res


def _run_cfg(prop, tier, spec, features, label, limit):
    t0 = time.time()
    res = {"violations": [], "inconclusive": [], "queries": 0, "nontrivial": 0, "coverage": {}, "assumptions": []}
    try:
        mirpath, mircmd = dump_mir(features)
    except Exception as e:
        res["inconclusive"].append({"error": str(e)})
        return res
    sys.path.insert(0, WMM)
    import mirsym
    try:
        templates, sites = mirsym.extract(open(mirpath).read())
    except Exception as e:
        res["inconclusive"].append({"error": f"template extraction failed: {type(e).__name__}: {e}"})
        os.remove(mirpath)
        return res
    # counter accesses outside the encoded functions cannot be ignored silently
    foreign = []
    visited = getattr(mirsym.extract, "visited", set())
    for fn, what in sites:
        leaf = fn.split("::")[-1]
        if what == "new" and leaf in CONSTRUCTOR_NEW:
            continue
        if (leaf, what) in ENCODED_SITES or fn in visited:
            continue   # inside a function whose MIR is part of a template
        foreign.append(f"{fn}: {what}")
    if foreign:
        res["inconclusive"].append({"error": "counter accessed outside the functions Engine W encodes (not covered by the "
                                    "weak-memory model; see the funnel harnesses): " + "; ".join(foreign)})
    # the encoder must give the known verdicts on the litmus set before its answers are used
    try:
        import litmus
        lb = litmus.run()
    except Exception as e:
        lb = [f"{type(e).__name__}: {e}"]
    if lb:
        res["inconclusive"].append({"error": "RC11 encoder self-test failed: " + "; ".join(lb)})
    res["queries"] += 2 * 12
    scs = family(prop, tier)
    if limit:
        # second configuration: only the programs that release a handle (the code that differs), fewest events first
        scs = sorted([x for x in scs if any("drop" in op or "unwrap" in op for t in x[1] for op in t)], key=lambda x: sum(len(t) for t in x[1]))[:limit]
    tmo = 120000 if tier == "quick" else 600000
    jobs = [(i, n, t, s, j, tmo) for i, (n, t, s, j) in enumerate(scs)]
    nproc = min(int(os.environ.get("VERIF_JOBS", "12")), max(1, len(jobs)))
    with Pool(nproc, initializer=_init, initargs=(mirpath,)) as pool:
        outs = pool.map(_one, jobs, chunksize=1)
    os.makedirs(os.path.join(REPLAYS, prop), exist_ok=True)
    samples, solver_s, holds, n_cvc5 = [], 0.0, 0, 0
    for o in outs:
        name, threads, spawned, joins = scs[o["idx"]]
        res["queries"] += o.get("queries", 1) or 1
        solver_s += o.get("secs", 0) or 0
        desc = {"scenario": name, "threads": threads, "spawned": {str(k): v for k, v in spawned.items()},
                "joins": {str(k): v for k, v in joins.items()}, "events": o.get("events"),
                "verdict": o["verdict"], "solver_s": o.get("secs")}
        if o["verdict"] == "holds":
            holds += 1
            if o.get("events", 0) >= 4:
                res["nontrivial"] += 1
            if len(samples) < 4:
                samples.append(desc)
        elif o["verdict"] == "violation":
            ok, why = o["witness_check"]
            # second solver on the first counterexamples only (each re-decision can take a minute); every
            # counterexample is validated by the solver-free witness checker
            if n_cvc5 < 2:
                n_cvc5 += 1
                agree, cv = cvc5_agrees(o["smt2"], WORK, f"{prop}-wmm-{o['idx']}")
            else:
                agree, cv = None, "not re-decided (limit of 2 cvc5 cross-checks per run)"
            key = f"{prop}:wmm:" + (label + ":" if label else "") + "|".join(",".join(t) for t in threads)
            path = os.path.join(REPLAYS, prop, "wmm-%s.json" % hashlib.sha1(key.encode()).hexdigest()[:10])
            art = {"engine": "wmm", "property": prop, "key": key, "features": list(features), "scenario": desc, "witness": o["witness"],
                   "trace": render(o["witness"], threads), "witness_check": why, "cvc5": cv,
                   "note": "weak-memory executions cannot be forced on x86 hardware; the witness is validated by an independent "
                           "RC11 checker and a second solver instead of a native run",
                   "repo_fingerprint": repo_fingerprint()}
            with open(path, "w") as f:
                json.dump(art, f, indent=1)
            if ok and agree is not False:
                res["violations"].append({"key": key, "scenario": (f"[{label}] " if label else "") + name + " " + json.dumps(threads), "what": "; ".join(d for _, d in o["violated"][:2]), "replay": path})
            else:
                res["inconclusive"].append({"error": f"{label} counterexample for {name} not confirmed (witness check: {why}; cvc5: {cv})"})
        else:
            res["inconclusive"].append({"error": f"scenario {name} {threads}: {o.get('why')}"})
    sys.path.insert(0, WMM)
    res["coverage"] = {
        "engine": "MIR -> event templates -> RC11 axioms in SMT (z3 %s), counterexamples re-decided by cvc5 and an independent witness checker" % _z3v(),
        "mir_dump_cmd": mircmd,
        "functions_symbolically_executed": sorted(set(p["fn"] for ps in templates.values() for p in ps)),
        "templates": {k: mirsym.describe(v) for k, v in templates.items()},
        "encoder_self_test": "12 litmus cases with known verdicts - 7 ordering/fence variants of the release/acquire protocol, 4 compare-exchange gates, 1 plain read of the count word (wmm/litmus.py): " + ("all verdicts as expected" if not lb else "FAILED"),
        "counter_access_sites": [f"{a}: {b}" for a, b in sites],
        "scenarios": len(scs), "scenarios_hold": holds,
        "max_events": max([o.get("events") or 0 for o in outs] or [0]),
        "solver_seconds": round(solver_s, 1),
        "bounds": f"{'2-3' if tier == 'quick' else '2-4'} threads, <= {max(len(t) for _, ts, _, _ in scs for t in ts)} ops per thread, one shared allocation, "
                  "RC11 (SeqCst treated as AcqRel), release-like MIR (debug assertions off)",
        "samples": samples,
    }
    res["assumptions"] = [
        "Engine W: RC11 memory model restricted to non-atomic/Relaxed/Acquire/Release/AcqRel accesses and fences; sb U rf acyclic",
        "Engine W: std functions modelled by hand in wmm/mirsym.py (atomics incl. compare_exchange{,_weak} and plain reads of the count word, NonNull/ManuallyDrop/Box wrappers, drop_in_place, dealloc, mem::replace/swap, needs_drop as a scenario-wide unknown, Result::map/ok/unwrap_or_else/is_ok, Clone of the payload = non-atomic read)",
        "Engine W: other handle kinds reach the counter only through Arc's clone/drop/count (checked by the counter-access scan of the MIR dump and the funnel harnesses)",
    ]
    try:
        os.remove(mirpath)
        os.remove(mirpath + ".err")
    except OSError:
        pass
    log(f"[{prop}] weak-memory engine{' (' + label + ')' if label else ''}: {len(scs)} scenarios, {holds} hold, {len(res['violations'])} violate, {len(res['inconclusive'])} inconclusive, {time.time()-t0:.1f}s")
    return res


ORD_CODE = {"rlx": 0, "acq": 1, "rel": 2, "acqrel": 3, "sc": 4}


def sequential_events(paths, c):
    """Sequential reading of a template from count `c`: the atomic events the compiled operation must
    perform when nothing else touches the counter."""
    from z3 import BitVec, BitVecVal, substitute, simplify, And, is_true, BoolVal, Solver, sat
    hits = []
    for p in paths:
        # the payload type of the translation-validation harnesses (c02::V) has no drop glue
        m, sub, evs = c, [(BitVec("TP_needs_drop", 64), BitVecVal(0, 64))], []
        for e in p["events"]:
            k = e["kind"]
            if k == "R" and e.get("ord") == "na":
                sub.append((e["rval"], BitVecVal(m, 64)))       # plain read: no atomic helper is called, nothing is recorded
            elif k == "R":
                sub.append((e["rval"], BitVecVal(m, 64)))
                evs.append((6 if e.get("op") == "cas-fail" else 3, ORD_CODE[e["ord"]], 0))
            elif k == "RMW":
                sub.append((e["rval"], BitVecVal(m, 64)))
                w = e["wval"]
                nv = w if isinstance(w, int) else simplify(substitute(w, *sub)).as_long()
                if e["op"] == "fetch_add":
                    evs.append((1, ORD_CODE[e["ord"]], (nv - m) % (1 << 64)))
                elif e["op"] == "fetch_sub":
                    evs.append((2, ORD_CODE[e["ord"]], (m - nv) % (1 << 64)))
                elif e["op"] == "cas":
                    evs.append((5, ORD_CODE[e["ord"]], nv))
                else:
                    raise RuntimeError(f"atomic {e['op']} in a template: not covered by the recording stubs")
                m = nv
            elif k == "W":
                w = e["wval"]
                nv = w if isinstance(w, int) else simplify(substitute(w, *sub)).as_long()
                evs.append((7, ORD_CODE[e["ord"]], nv))
                m = nv
            elif k == "F":
                evs.append((4, ORD_CODE[e["ord"]], 0))
        pc = simplify(substitute(And(*p["pc"]), *sub)) if p["pc"] else BoolVal(True)
        # the only variables left after substituting the values read are per-instance choices (which of
        # the two outcomes of a compare-exchange happened): the path applies iff some choice allows it
        sol = Solver(); sol.add(pc)
        if is_true(pc) or sol.check() == sat:
            hits.append(evs)
    if len(hits) != 1:
        raise RuntimeError(f"template is not deterministic from count {c}: {len(hits)} paths apply"
                           + (" (a weak compare-exchange may fail spuriously)" if len(hits) > 1 else ""))
    return hits[0]


def write_expected(templates):
    """Generate kani/src/c02_expected.rs (only rewritten when its content changes)."""
    lines = ["// GENERATED by lib/wmm_engine.py from the MIR-derived event templates of /repo's current sources.",
             "// (kind: 1 add, 2 sub, 3 load, 4 fence; ord: 0 Relaxed, 1 Acquire, 2 Release, 3 AcqRel, 4 SeqCst; operand)", ""]
    for op in ["clone", "drop", "strong_count", "count", "is_unique", "get_mut", "try_unique", "try_unwrap", "make_mut", "unwrap_or_clone"]:
        lines.append("#[allow(non_snake_case)]")
        lines.append(f"pub fn EXP_{op.upper()}(c: usize) -> &'static [(u8, u8, usize)] {{")
        lines.append("    match c {")
        for c in (1, 2, 3):
            evs = sequential_events(templates[op], c)
            lines.append(f"        {c} => &[" + ", ".join(f"({k}, {o}, {v})" for k, o, v in evs) + "],")
        lines.append("        _ => panic!(\"no expectation generated for this count\"),")
        lines.append("    }")
        lines.append("}")
    txt = "\n".join(lines) + "\n"
    path = os.path.join(VERIF, "kani", "src", "c02_expected.rs")
    old = open(path).read() if os.path.exists(path) else None
    if old != txt:
        with open(path, "w") as f:
            f.write(txt)
    return path


def prepare(prop):
    """Called before the Kani part of C02: regenerate the expectation table from the current MIR."""
    mirpath, _ = dump_mir()
    sys.path.insert(0, WMM)
    import mirsym
    try:
        templates, _ = mirsym.extract(open(mirpath).read())
        write_expected(templates)
    finally:
        try:
            os.remove(mirpath)
            os.remove(mirpath + ".err")
        except OSError:
            pass


def _z3v():
    try:
        import z3
        return z3.get_version_string()
    except Exception:
        return "?"


def replay(prop, art):
    """Re-decide the scenario of a recorded counterexample against the current tree."""
    mirpath, _ = dump_mir(tuple(art.get("features") or ("--features", "std")))
    _init(mirpath)
    sc = art["scenario"]
    o = _one((0, sc["scenario"], sc["threads"], {int(k): tuple(v) for k, v in sc["spawned"].items()},
              {int(k): tuple(v) for k, v in sc.get("joins", {}).items()}, 600000))
    os.remove(mirpath)
    log(f"[{prop}] replay of weak-memory scenario {sc['threads']}: {o['verdict']}")
    if o["verdict"] == "violation":
        for l in render(o["witness"], sc["threads"]):
            log("    " + l)
        log(f"VIOLATION property={prop} replay={art.get('how_to_replay', '')}")
        return EXIT_VIOLATION
    return EXIT_OK if o["verdict"] == "holds" else EXIT_INCONCLUSIVE
