"""Counterexample artefacts and replay (DESIGN.md 3.7 / 10.6).

For a violating harness the solver's assignment is turned into an ordinary unit test by Kani's
concrete playback and run NATIVELY against the real /repo sources (stubs are not applied there:
a logging #[global_allocator], enabled by `--cfg verif_playback`, feeds the same layout log; the
drop ledger is plain Rust), in the dev profile and in a release-like profile.
"""
import json, os, re, shutil, subprocess, time
from common import *
import kani_engine as K

PLAY_DIR = os.path.join(WORK, "playback")
MAX_NATIVE_REPLAYS = int(os.environ.get("VERIF_MAX_REPLAYS", "2"))
_done = {"n": 0}

# harnesses whose verdict is observed *by* a stub: nothing to run natively
MODEL_ONLY = [
    (re.compile(r"^c02::"), "the atomic-event recording stubs are the observer; artefact = failed checks"),
    (re.compile(r"_af_|layout_only"), "allocation failure is injected by the allocator stub; the real allocator does not fail on demand"),
]
UB_CLASS = re.compile(r"dereference failure|pointer|misaligned|unsafe precondition|outside object bounds|deallocated|dead object", re.I)


def playback_tests(h):
    """Ask Kani for the concrete playback unit tests of a failing harness."""
    cmd = ["cargo", "kani", "-Z", "stubbing", "-Z", "concrete-playback", "--concrete-playback=print",
           "--harness", h.name, "--exact", "--output-format", "terse"]
    try:
        p = subprocess.run(cmd, cwd=K.KANI_CRATE, env=K.kani_env(h.profile), capture_output=True, text=True, timeout=900)
    except subprocess.TimeoutExpired:
        return []
    out = p.stdout + p.stderr
    tests = []
    for block in re.findall(r"```\n(.*?)\n```", out, re.S):
        m = re.search(r"#\[test\]\nfn (kani_concrete_playback_\w+)\(\)", block)
        if m:
            tests.append((m.group(1), block[block.index("#[test]"):]))
    return tests


def native_run(h, tests, release):
    """Build a scratch copy of the harness crate with the playback tests appended to the harness's
    module and run them natively, one process per test. Returns list of (test, rc, tail)."""
    module = h.name.split("::")[0]
    d = os.path.join(PLAY_DIR, h.leaf)
    shutil.rmtree(d, ignore_errors=True)
    os.makedirs(d)
    shutil.copytree(os.path.join(K.KANI_CRATE, "src"), os.path.join(d, "src"))
    for f in ("Cargo.toml", "Cargo.lock"):
        shutil.copy(os.path.join(K.KANI_CRATE, f), d)
    if REPO != "/repo":
        ct = open(os.path.join(d, "Cargo.toml")).read().replace('path = "/repo"', f'path = "{REPO}"')
        open(os.path.join(d, "Cargo.toml"), "w").write(ct)
    with open(os.path.join(d, "src", module + ".rs"), "a") as f:
        f.write("\n\n// ---- concrete playback tests appended by lib/replay.py ----\n")
        for _, code in tests:
            f.write(code + "\n")
    env = dict(os.environ)
    env["CARGO_NET_OFFLINE"] = "true"
    flags = K.PROFILES[h.profile] + " --cfg verif_playback"
    if release:
        flags += " -C opt-level=2 -C debug-assertions=off"
    env["RUSTFLAGS"] = flags
    env["CARGO_TARGET_DIR"] = os.path.join(TARGET, "playback-release" if release else "playback-dev")
    res = []
    for name, _ in tests:
        try:
            p = subprocess.run(["cargo", "kani", "playback", "-Z", "concrete-playback", "--", name],
                               cwd=d, env=env, capture_output=True, text=True, timeout=int(os.environ.get("VERIF_PLAYBACK_TIMEOUT_S", "300")))
            txt = (p.stdout + p.stderr)
            lines = txt.splitlines()
            tail = []
            for i, l in enumerate(lines):
                if "panicked at" in l:
                    tail += lines[i:i + 3]
                elif re.search(r"^test result|signal|SIG[A-Z]+|^error(\[|:)", l):
                    tail.append(l)
            tail = [t.strip()[:300] for t in tail][-8:]
            built = "test result" in txt or "panicked" in txt or "signal" in txt
            res.append((name, p.returncode if built else None, tail))
        except subprocess.TimeoutExpired:
            res.append((name, None, ["timeout"]))
    shutil.rmtree(d, ignore_errors=True)
    return res


def record(prop, h, key):
    """Write the artefact; replay natively when possible. Returns (path, status) with status in
    reproduced | ub_unconfirmed | model_only | not_replayed | not_reproduced | playback_failed."""
    d = os.path.join(REPLAYS, prop)
    os.makedirs(d, exist_ok=True)
    path = os.path.join(d, h.leaf + "-" + h.profile + ".json")
    art = {
        "property": prop, "key": key, "harness": h.name, "profile": h.profile,
        "repo_fingerprint": repo_fingerprint(),
        "failed_checks": [K.fmt_check(c) for c in h.failed],
        "how_to_replay": f"bin/check {prop} --replay {path}",
    }
    status = "not_replayed"
    why = None
    for rx, reason in MODEL_ONLY:
        if rx.search(h.name):
            status, why = "model_only", reason
    if status == "not_replayed" and _done["n"] < MAX_NATIVE_REPLAYS:
        _done["n"] += 1
        tests = playback_tests(h)[:2]
        art["playback_tests"] = [code for _, code in tests]
        if not tests:
            status, why = "playback_failed", "Kani produced no concrete playback test"
        else:
            runs = {"dev": native_run(h, tests, False), "release_like": native_run(h, tests, True)}
            art["native_runs"] = {k: [{"test": n, "exit": rc, "output": tail} for n, rc, tail in v] for k, v in runs.items()}
            rcs = [rc for v in runs.values() for _, rc, _ in v]
            if any(rc not in (0, None) for rc in rcs):
                status = "reproduced"
            elif all(rc is None for rc in rcs):
                status, why = "playback_failed", "the native playback build did not run"
            elif any(UB_CLASS.search(c.get("description", "")) for c in h.failed):
                status, why = "ub_unconfirmed", "standard-level undefined behaviour that no native run confirms; triage by reading the failed checks"
            else:
                status, why = "not_reproduced", "the counterexample does not fail natively: the encoding or a stub is suspect"
    art["replay_status"] = status
    if why:
        art["replay_note"] = why
    with open(path, "w") as f:
        json.dump(art, f, indent=1)
    return path, status


def replay(prop, path):
    with open(path) as f:
        art = json.load(f)
    if art.get("engine") == "unwind":
        import unwind_engine
        art["how_to_replay"] = path
        return unwind_engine.replay(prop, art)
    if art.get("engine") == "wmm":
        import wmm_engine
        art["how_to_replay"] = path
        return wmm_engine.replay(prop, art)
    module = art["harness"].split("::")[0]
    hs, info = K.run_kani(module, "thorough", profile=art["profile"], exact=[art["harness"]], jobs=1,
                          tag=f"replay-{prop}")
    for h in hs:
        log(f"[{prop}] replay {h.name} ({h.profile}): {h.verdict}")
        for r in h.reasons:
            log("    " + r)
        if h.verdict == "violation":
            p2, status = record(prop, h, art.get("key", ""))
            log(f"[{prop}] native replay: {status}")
            log(f"VIOLATION property={prop} replay={path}")
            return EXIT_VIOLATION
        if h.verdict == "pass":
            return EXIT_OK
    return EXIT_INCONCLUSIVE
