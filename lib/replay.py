"""Counterexample artefacts and replay (DESIGN.md 3.7)."""
import json, os, re, subprocess, time
from common import *
import kani_engine as K


def record(prop, h, key):
    d = os.path.join(REPLAYS, prop)
    os.makedirs(d, exist_ok=True)
    path = os.path.join(d, h.leaf + "-" + h.profile + ".json")
    art = {
        "property": prop, "key": key, "harness": h.name, "profile": h.profile,
        "repo_fingerprint": repo_fingerprint(),
        "failed_checks": [K.fmt_check(c) for c in h.failed],
        "how_to_replay": f"bin/check {prop} --replay {path}",
    }
    with open(path, "w") as f:
        json.dump(art, f, indent=1)
    return path, None


def replay(prop, path):
    with open(path) as f:
        art = json.load(f)
    if art.get("engine") == "wmm":
        import wmm_engine
        return wmm_engine.replay(prop, art)
    module = art["harness"].split("::")[0]
    hs, info = K.run_kani(module, "thorough", profile=art["profile"], exact=[art["harness"]], jobs=1,
                          tag=f"replay-{prop}")
    for h in hs:
        log(f"[{prop}] replay {h.name}: {h.verdict}")
        for r in h.reasons:
            log("    " + r)
        if h.verdict == "violation":
            log(f"VIOLATION property={prop} replay={path}")
            return EXIT_VIOLATION
        if h.verdict == "pass":
            return EXIT_OK
    return EXIT_INCONCLUSIVE
