#!/usr/bin/env python3
"""Regenerate MANIFEST.json from lib/props.py + lib/manifest_text.py (keeps it valid and in sync)."""
import json, os, sys
sys.path.insert(0, os.path.dirname(os.path.abspath(__file__)))
import props, manifest_text as T

V = os.path.dirname(os.path.dirname(os.path.abspath(__file__)))
ids = [json.loads(l)["id"] for l in open(os.path.join(V, "properties.jsonl"))]
checks, na = [], []
for i in ids:
    if i in props.PROPS and i in T.CHECKS:
        t = T.CHECKS[i]
        checks.append({
            "property_id": i,
            "quick_cmd": f"bin/check {i} --tier quick",
            "thorough_cmd": f"bin/check {i} --tier thorough",
            "evidence_file": f"/verif/evidence/{i}.json",
            "replay_cmd_template": f"bin/check {i} --replay {{path}}",
            "engine": t["engine"],
            "level_claimed": {"category": "model_checking", "text": t["level"], "design_ref": t["design_ref"]},
            "level_note": t["note"],
            "technique": t["technique"],
        })
    else:
        na.append({"property_id": i, "reason": T.NOT_APPLICABLE.get(i, "check not built yet in this round; see DESIGN.md")})
m = {
    "version": 1,
    "setup_cmd": "bin/setup",
    "hooks": {
        "guard": "cfg(triomphe_verif)",
        "enable": "RUSTFLAGS=\"--cfg triomphe_verif\" (set by bin/check for every cargo kani invocation; the MIR dump for the weak-memory engine needs no hook)",
        "baseline_off_cmd": "cd /repo && cargo test --workspace --no-fail-fast --offline",
        "source_commits": T.HOOK_COMMITS,
        "add_only": True,
    },
    "engines": T.ENGINES,
    "checks": checks,
    "not_applicable": na,
    "notes": T.NOTES,
}
json.dump(m, open(os.path.join(V, "MANIFEST.json"), "w"), indent=1)
print("checks:", [c["property_id"] for c in checks], "n/a:", [x["property_id"] for x in na])
